"""Driver for E2: builds the verification conditions of a kernel from the real source (vt/loopvc)
and its sidecar contract (contracts/groupings.py) and discharges them."""
from __future__ import annotations

import ast
import importlib

import z3

from contracts import groupings as cg
from vt import loopvc, solve
from vt.loopvc import SArr, SCounter, SDict, SDictList, SList, Unsupported

Int = z3.IntSort()
Bool = z3.BoolSort()
Real = z3.RealSort()

WHERE = {
    "eg_id_numpy": "_gettsim.groupings",
    "ehe_id_numpy": "_gettsim.groupings",
    "sn_id_numpy": "_gettsim.groupings",
    "bg_id_numpy": "_gettsim.groupings",
    "wthh_id_numpy": "_gettsim.groupings",
    "sum_by_p_id": "_gettsim.aggregation_numpy",
    "fg_id_numpy": "_gettsim.groupings",
}


def real_function(name):
    return getattr(importlib.import_module(WHERE[name]), name)


def K(sort, val):
    return z3.K(Int, val) if sort is None else z3.K(Int, val)


def init_state(vc, pre_stmts, inp, gh, contract):
    """interpret the initialisation statements before the loop"""
    st = dict(inp)
    hyps = []
    # dicts whose values are lists: recognised by how the function uses them (`d[k] = []`, `d[k].append(..)`)
    dictlists = set()
    for n in ast.walk(vc.node):
        if isinstance(n, ast.Assign) and len(n.targets) == 1 and isinstance(n.targets[0], ast.Subscript) and isinstance(n.targets[0].value, ast.Name) and isinstance(n.value, ast.List):
            dictlists.add(n.targets[0].value.id)
        if isinstance(n, ast.Call) and isinstance(n.func, ast.Attribute) and n.func.attr == "append" and isinstance(n.func.value, ast.Subscript) and isinstance(n.func.value.value, ast.Name):
            dictlists.add(n.func.value.value.id)
    for s in pre_stmts:
        if isinstance(s, ast.Expr) and isinstance(s.value, ast.Call) and getattr(s.value.func, "id", "").startswith("fail_if_dtype"):
            continue  # dtype guards: raise TypeError iff the dtype class is wrong (dtype precondition)
        if isinstance(s, ast.If) and "dtype" in ast.unparse(s.test):
            # `if column.dtype in ["bool"]: column = column.astype(int)` -- value preserving (False/True -> 0/1)
            continue
        if isinstance(s, ast.Assign) and len(s.targets) == 1 and isinstance(s.targets[0], ast.Name):
            name = s.targets[0].id
            v = s.value
            if isinstance(v, ast.Dict) and not v.keys and name in dictlists:
                st[name] = SDictList(z3.K(Int, z3.BoolVal(False)), z3.K(Int, z3.K(Int, z3.IntVal(0))), z3.K(Int, z3.IntVal(0)))
                continue
            if isinstance(v, ast.Dict) and not v.keys:
                st[name] = SDict(z3.K(Int, z3.BoolVal(False)), z3.K(Int, z3.IntVal(0)))
                continue
            if isinstance(v, ast.List) and not v.elts:
                st[name] = SList(z3.K(Int, z3.IntVal(0)), z3.IntVal(0))
                continue
            if isinstance(v, ast.Constant) and isinstance(v.value, int):
                st[name] = z3.IntVal(v.value)
                continue
            if isinstance(v, ast.Call) and ast.unparse(v.func) == "Counter" and not v.args:
                st[name] = SCounter(z3.K(Int, z3.IntVal(0)))
                continue
            if isinstance(v, ast.Call) and ast.unparse(v.func) == "numpy.zeros_like":
                like = st[v.args[0].id]
                st[name] = SArr(z3.K(Int, z3.RealVal(0)), like.n, Real)
                continue
            if isinstance(v, ast.DictComp):
                # {key: iloc for iloc, key in enumerate(arr)}
                g = v.generators[0]
                ok = (isinstance(g.iter, ast.Call) and getattr(g.iter.func, "id", None) == "enumerate" and isinstance(g.target, ast.Tuple)
                      and isinstance(v.key, ast.Name) and isinstance(v.value, ast.Name) and v.key.id == g.target.elts[1].id and v.value.id == g.target.elts[0].id and not g.ifs)
                if not ok or "dict_comprehension" not in contract:
                    raise Unsupported("dict comprehension of an unexpected shape")
                d = SDict(z3.Array(f"{name}!dom", Int, Bool), z3.Array(f"{name}!val", Int, Int))
                st[name] = d
                hyps.extend(contract["dict_comprehension"](inp, gh, d))
                continue
        raise Unsupported(f"initialisation statement not understood: {ast.unparse(s)[:80]}")
    return st, hyps


def modified_names(loop):
    """names the loop body may assign or mutate (syntactic frame of the loop)"""
    mod = set()
    for n in ast.walk(loop):
        if isinstance(n, (ast.Assign, ast.AugAssign)):
            for t in (n.targets if isinstance(n, ast.Assign) else [n.target]):
                while isinstance(t, (ast.Subscript, ast.Attribute)):
                    t = t.value
                if isinstance(t, ast.Name):
                    mod.add(t.id)
        if isinstance(n, ast.Call) and isinstance(n.func, ast.Attribute) and n.func.attr == "append" and isinstance(n.func.value, ast.Subscript) and isinstance(n.func.value.value, ast.Name):
            mod.add(n.func.value.value.id)
        if isinstance(n, ast.Call) and isinstance(n.func, ast.Attribute) and isinstance(n.func.value, ast.Name):
            if n.func.attr in ("append", "extend", "update", "pop", "clear", "setdefault", "add", "insert", "remove", "sort"):
                mod.add(n.func.value.id)
    return mod


def sym_like(st_init, tag, modified=None):
    """fresh symbolic state with the same shape as st_init (for the arbitrary iteration);
    variables outside the loop's frame keep their initial value"""
    out = {}
    for n, v in st_init.items():
        if modified is not None and n not in modified:
            out[n] = v
            continue
        if isinstance(v, SDict):
            out[n] = SDict(z3.Array(f"{n}!dom{tag}", Int, Bool), z3.Array(f"{n}!val{tag}", Int, Int))
        elif isinstance(v, SDictList):
            out[n] = SDictList(z3.Array(f"{n}!dom{tag}", Int, Bool), z3.Array(f"{n}!elems{tag}", Int, z3.ArraySort(Int, Int)), z3.Array(f"{n}!lens{tag}", Int, Int))
        elif isinstance(v, SList):
            out[n] = SList(z3.Array(f"{n}!arr{tag}", Int, Int), z3.Int(f"{n}!len{tag}"))
        elif isinstance(v, SCounter):
            out[n] = SCounter(z3.Array(f"{n}!cnt{tag}", Int, Int))
        elif isinstance(v, SArr):
            out[n] = v  # inputs are immutable; mutable arrays are replaced below
        elif z3.is_expr(v):
            out[n] = z3.Const(f"{n}!{tag}", v.sort())
        else:
            out[n] = v
    return out


def returned(vc, post_stmts, st):
    """value of the return statement after the loop"""
    rets = [s for s in post_stmts if isinstance(s, ast.Return)]
    if (len(post_stmts) == 2 and len(rets) == 1 and isinstance(post_stmts[0], ast.Assign) and isinstance(post_stmts[0].value, ast.ListComp)
            and len(post_stmts[0].targets) == 1 and isinstance(post_stmts[0].targets[0], ast.Name)):
        # name = [d[x] for x in arr]   -> list of length N with element i = d[arr[i]]; look-ups are safety obligations
        lc = post_stmts[0].value
        g = lc.generators[0]
        ok = (len(lc.generators) == 1 and not g.ifs and isinstance(g.target, ast.Name) and isinstance(g.iter, ast.Name) and isinstance(st.get(g.iter.id), SArr)
              and isinstance(lc.elt, ast.Subscript) and isinstance(lc.elt.value, ast.Name) and isinstance(st.get(lc.elt.value.id), SDict)
              and isinstance(lc.elt.slice, ast.Name) and lc.elt.slice.id == g.target.id)
        if not ok:
            raise Unsupported("list comprehension after the loop of an unexpected shape")
        arr, d = st[g.iter.id], st[lc.elt.value.id]
        ii = z3.Int("lc!i")
        sink = st.setdefault("__post_safety__", [])
        st = dict(st)
        st["__post_safety__"] = sink
        st[post_stmts[0].targets[0].id] = SList(z3.Lambda([ii], z3.Select(d.val, z3.Select(arr.arr, ii))), arr.n)
        st["__post_safety__"] += [(f"dict key present (no KeyError) in the list comprehension @{vc.where(lc)}",
                                  z3.ForAll([ii], z3.Implies(z3.And(0 <= ii, ii < arr.n), z3.Select(d.dom, z3.Select(arr.arr, ii)))))]
        post_stmts = post_stmts[1:]
    if len(rets) != 1 or len(post_stmts) != 1:
        raise Unsupported("statements after the loop other than a single return")
    v = rets[0].value
    if isinstance(v, ast.Call) and ast.unparse(v.func) in ("numpy.asarray", "numpy.array", "np.asarray", "np.array") and isinstance(v.args[0], ast.Name):
        return st[v.args[0].id]
    if isinstance(v, ast.Name):
        o = st[v.id]
        if isinstance(o, SArr):
            return SList(o.arr, o.n)
        return o
    raise Unsupported("return expression not understood")


def verification_conditions(name, mutable_arrays=("out",)):
    """-> list of (obligation name, [assertions whose conjunction must be UNSAT])"""
    contract = cg.KERNELS[name]
    func = real_function(contract.get("function", name))
    vc = loopvc.LoopVC(func)
    pre_stmts, loops, post_stmts = vc.split()
    stage_only = contract.get("stage_only", False)
    loop_no = contract.get("loop_no", 0)
    if "n_loops" in contract:
        # contract of ONE top-level loop of a function with several: the statements between the previous loop and
        # this one are its initialisation; an earlier stage's proved postcondition is carried in as hypothesis
        # (contract["carry"]); the statements after the last loop are interpreted only for the last stage
        if len(loops) != contract["n_loops"]:
            raise Unsupported(f"{name}: expected {contract['n_loops']} top-level loops, found {len(loops)}")
        segs, _ = vc.segments()
        pre_stmts, post_stmts = segs[loop_no], segs[loop_no + 1]
    elif len(loops) != 1:
        raise Unsupported(f"{name}: expected exactly one loop, found {len(loops)}")
    loop = loops[loop_no]
    vc.inner_inv = None
    inp, gh = contract["inputs"]()
    arg_names = [a.arg for a in vc.node.args.args]
    missing = [a for a in arg_names if a not in inp]
    if missing:
        raise Unsupported(f"{name}: arguments {missing} are not covered by the contract")
    pre = contract["pre"](inp, gh)
    def kind(v):
        return "dictlist" if isinstance(v, SDictList) else "dict" if isinstance(v, SDict) else "list" if isinstance(v, SList) else "counter" if isinstance(v, SCounter) else "arr" if isinstance(v, SArr) else "int"

    carried, carry_hyps = contract["carry"](inp, gh) if "carry" in contract else ({}, [])
    carry_alias = {}
    if carried:
        # the state handed over by the earlier stages is named as the contract names it; the code may have renamed
        # these locals: bind by role (kind and order of initialisation in the earlier segments)
        prev_st, _ = init_state(vc, [s_ for seg in segs[:loop_no] for s_ in seg], inp, gh, contract)
        code_prev = [(n, kind(v)) for n, v in prev_st.items() if n not in inp]
        for kd in {kind(v) for v in carried.values()}:
            cn = [n for n, v in carried.items() if kind(v) == kd]
            kn = [n for n, k_ in code_prev if k_ == kd]
            if len(cn) != len(kn):
                raise Unsupported(f"{name}: the earlier stage hands over {cn} of kind {kd}, the code initialises {kn}")
            carry_alias.update({c: k_ for c, k_ in zip(cn, kn) if c != k_})
        carried = {carry_alias.get(n, n): v for n, v in carried.items()}
    st0, hyps0 = init_state(vc, pre_stmts, {**inp, **carried}, gh, contract)
    hyps0 = [*carry_hyps, *hyps0]
    if "inner_inv" in contract:
        def _inner(st_entry, st_now, t_, lst_):
            try:
                back = lambda st_: {**st_, **{c: st_[k_] for c, k_ in alias.items() if k_ in st_}}  # noqa: E731
                return contract["inner_inv"](inp, gh, back(st_entry), back(st_now), t_, lst_)
            except KeyError as ex:
                raise Unsupported(f"{name}: the inner invariant refers to a variable the code no longer has: {ex}") from ex

        vc.inner_inv = _inner
    # bind the contract's state variables: by name, or -- after a rename of locals -- by role
    # (kind of object and position among the initialisations of that kind)
    alias = {}
    declared = cg.STATE_VARS.get(name)
    if declared:
        code_vars = [(n, kind(v)) for n, v in st0.items() if n not in inp]
        for kd in {k_ for _, k_ in declared}:
            cn = [n for n, k_ in declared if k_ == kd]
            kn = [n for n, k_ in code_vars if k_ == kd]
            if cn == kn:
                continue
            if len(cn) != len(kn):
                raise Unsupported(f"{name}: the contract expects {len(cn)} state variable(s) of kind {kd} ({cn}), the code initialises {kn}")
            alias.update({c: k_ for c, k_ in zip(cn, kn) if c != k_})
    mutable_arrays = tuple(alias.get(n, n) for n in mutable_arrays)
    contract = dict(contract)
    for fn in ("inv", "post", "exc_post"):
        if fn in contract and alias:
            def wrap(f):
                def g(inp_, gh_, st_, *rest):
                    return f(inp_, gh_, {**st_, **{c: st_[k_] for c, k_ in alias.items() if k_ in st_}}, *rest)

                return g

            contract[fn] = wrap(contract[fn])
    H = [f for _, f in pre] + hyps0
    out = []
    k0 = z3.IntVal(0)
    try:
        inv0 = contract["inv"](inp, gh, st0, k0)
    except KeyError as ex:
        raise Unsupported(f"{name}: the contract refers to a state variable the code no longer has: {ex}") from ex
    for cname, f in inv0:
        out.append((f"{name}: init {cname}", [*H, z3.Not(f)]))
    # arbitrary iteration
    mod = modified_names(loop)
    S = sym_like(st0, "k", mod)
    for n in mutable_arrays:
        if n in S and n in mod and isinstance(S[n], SArr):
            S[n] = SArr(z3.Array(f"{n}!k", Int, S[n].sort), S[n].n, S[n].sort)
    k = z3.Int("k")
    invk = contract["inv"](inp, gh, S, k)
    Hk = [*H, *[f for _, f in invk], k >= 0, k < inp["N"]]
    paths, safety = vc.iteration(loop, S, k)
    assumed = list(getattr(vc, "assumed", []))
    Hk = [*Hk, *[m_ == f_ for m_, f_ in assumed]]
    for pc, cond, desc in safety:
        out.append((f"{name}: safety {desc}", [*Hk, pc, z3.Not(cond)]))
    n_normal = 0
    for pi, p in enumerate(paths):
        if p.outcome == "raise":
            if "exc_post" not in contract:
                out.append((f"{name}: path {pi} raises {p.exc}: unreachable", [*Hk, p.pc]))
            else:
                for cname, f in contract["exc_post"](inp, gh, p.state, k, z3.StringVal(p.exc)):
                    out.append((f"{name}: path {pi} raises {p.exc}: {cname}", [*Hk, p.pc, z3.Not(f)]))
            continue
        n_normal += 1
        inv1 = contract["inv"](inp, gh, p.state, k + 1)
        for cname, f in inv1:
            out.append((f"{name}: preservation path {pi}: {cname}", [*Hk, p.pc, z3.Not(f)]))
    # the paths cover every case (the body is total): disjunction of path conditions is valid
    cover = z3.Or(*[p.pc for p in paths])
    if assumed:
        cover = z3.substitute(cover, *[(m_, z3.BoolVal(True)) for m_, _ in assumed])
        out.append((f"{name}: paths exhaustive", [*[h for h in Hk if not any(h.eq(m_ == f_) for m_, f_ in assumed)], z3.Not(cover)]))
    else:
        out.append((f"{name}: paths exhaustive", [*Hk, z3.Not(cover)]))
    # post
    SN = sym_like(st0, "N", mod)
    for n in mutable_arrays:
        if n in SN and n in mod and isinstance(SN[n], SArr):
            SN[n] = SArr(z3.Array(f"{n}!N", Int, SN[n].sort), SN[n].n, SN[n].sort)
    invN = contract["inv"](inp, gh, SN, inp["N"])
    HN = [*H, *[f for _, f in invN]]
    SN = dict(SN)
    if not stage_only:
        SN["__post_safety__"] = []
        SN["__return__"] = returned(vc, post_stmts, SN)
        for desc, f in SN["__post_safety__"]:
            out.append((f"{name}: safety {desc}", [*HN, z3.Not(f)]))
    for cname, f in contract["post"](inp, gh, SN):
        out.append((f"{name}: post {cname}", [*HN, z3.Not(f)]))
    # vacuity guard handled by the bounded instance (quantified hypotheses are not decidable for sat)
    if alias:
        tag = " [state variables bound by role: " + ", ".join(f"{c}->{k_}" for c, k_ in sorted(alias.items())) + "]"
        out = [(n + tag, q) for n, q in out]
    return out, {"paths": len(paths), "normal_paths": n_normal, "where": vc.where(loop), "n_pre": len(pre), "alias": alias}


def discharge(vcs, timeout_s=30):
    res = []
    for name, q in vcs:
        r = solve.check(q, timeout_s)
        st = {"unsat": "discharged", "sat": "refuted"}.get(r.status, "unknown")
        reason = r.reason
        if st == "refuted" and "[state variables bound by role" in name:
            # the binding of renamed locals is a guess: a failed obligation is then undecided, not a violation
            st, reason = "unknown", "obligation fails under a role-based binding of renamed state variables"
        res.append((name, st, r.backend, r.seconds, reason))
    return res
