"""E1 `symx` -- AST -> z3 symbolic execution of the scalar Python subset used by GETTSIM's
policy rules, helper functions, unit converters, `piecewise_polynomial` and the rounding
wrapper.  The source text is always obtained from the live function object (inspect) or the
module AST of /repo at run time; nothing is re-typed.

Value domain
  concrete : Python bool / int / Fl (exact rational standing for a float) / +-inf / any
             other Python object (dict, list, str, numpy array, ...); evaluated by CPython,
             numbers exactly (Fractions), never in floating point
  Num      : symbolic number = list of alternatives (guard, z3 term | +-inf, pytype) with
             pytype in {bool,int,float}; guards are exhaustive and mutually exclusive under
             the path condition.  Keeping the Python type per alternative is what makes the
             C03 obligations ("no path returns an int where float is declared") expressible.
  Alt      : guarded choice between non-numeric objects (e.g. two parameter sub-dicts)

Control flow is merged at join points (no path explosion); `return`/`raise` are collected
with their guards.  Safety obligations (key present, index in range, divisor non-zero, no
reachable raise, no inf-inf / 0*inf) are emitted as (kind, condition-that-must-be-unsat).

Semantics assumed (A1-A4 of DESIGN.md 4.1): float = real, int = integer, numpy scalars
behave like Python scalars, short-circuit operators are encoded logically with definedness
obligations of the right operand guarded by the left.
"""
from __future__ import annotations

import ast
import builtins
import inspect
import math
import textwrap
from fractions import Fraction

import numpy
import z3

INF = float("inf")
NINF = float("-inf")


class Fl(Fraction):
    """A concrete Python float carried exactly (the decimal value of its repr)."""

    __slots__ = ()

    def __repr__(self):
        return f"Fl({Fraction.__str__(self)})"


class Unsupported(Exception):
    def __init__(self, msg, node=None):
        super().__init__(msg)
        self.node = node


class PathAbort(Exception):
    """The current path raises unconditionally (missing key, TypeError on None, ...)."""

    def __init__(self, exc, detail="", obliged=False):
        super().__init__(f"{exc}: {detail}")
        self.exc = exc
        self.detail = detail
        self.obliged = obliged  # a safety obligation has already been emitted for it


class Undefined:
    def __repr__(self):
        return "<undefined>"


UNDEF = Undefined()
ABORTED = object()


class NoneVal:
    pass


# ----------------------------------------------------------------------------------
# z3 helpers with light constant folding
# ----------------------------------------------------------------------------------
TRUE = z3.BoolVal(True)
FALSE = z3.BoolVal(False)


def is_true(b):
    return z3.is_true(b)


def is_false(b):
    return z3.is_false(b)


def mk_and(*xs):
    out = []
    for x in xs:
        if is_false(x):
            return FALSE
        if is_true(x):
            continue
        out.append(x)
    if not out:
        return TRUE
    if len(out) == 1:
        return out[0]
    return z3.And(*out)


def mk_or(*xs):
    out = []
    for x in xs:
        if is_true(x):
            return TRUE
        if is_false(x):
            continue
        out.append(x)
    if not out:
        return FALSE
    if len(out) == 1:
        return out[0]
    return z3.Or(*out)


def mk_not(x):
    if is_true(x):
        return FALSE
    if is_false(x):
        return TRUE
    if z3.is_not(x):
        return x.arg(0)
    return z3.Not(x)


def mk_ite(c, a, b):
    if is_true(c):
        return a
    if is_false(c):
        return b
    if a.eq(b):
        return a
    return z3.If(c, a, b)


def frac_to_z3real(fr):
    return z3.RealVal(f"{fr.numerator}/{fr.denominator}") if fr.denominator != 1 else z3.RealVal(fr.numerator)


def lift_float(x) -> object:
    """Python/numpy float -> Fl | inf | -inf ; NaN is rejected."""
    x = float(x)
    if math.isnan(x):
        raise Unsupported("NaN constant")
    if math.isinf(x):
        return INF if x > 0 else NINF
    return Fl(Fraction(repr(x)))


def lift(x):
    """Normalise a concrete Python object coming out of CPython evaluation."""
    if isinstance(x, (bool, numpy.bool_)):
        return bool(x)
    if isinstance(x, Fl):
        return x
    if isinstance(x, (int, numpy.integer)):
        return int(x)
    if isinstance(x, (float, numpy.floating)):
        return lift_float(x)
    if isinstance(x, Fraction):
        return Fl(x)
    if isinstance(x, numpy.ndarray) and x.ndim == 0:
        return lift(x.item())
    return x


def unlift(x):
    """Concrete value -> what CPython would have (for native library calls)."""
    if isinstance(x, Fl):
        return float(x)
    if isinstance(x, list):
        return [unlift(v) for v in x]
    if isinstance(x, tuple):
        return tuple(unlift(v) for v in x)
    return x


def is_conc_num(x):
    return isinstance(x, (bool, int, Fl)) or (isinstance(x, float) and math.isinf(x))


def pytype_of(x):
    if isinstance(x, bool):
        return "bool"
    if isinstance(x, int):
        return "int"
    return "float"


# ----------------------------------------------------------------------------------
# symbolic numbers
# ----------------------------------------------------------------------------------
class Num:
    """alts: list of (guard, term, ty); term is a z3 expr or INF/NINF (ty == 'float')."""

    __slots__ = ("alts",)

    def __init__(self, alts):
        self.alts = _normalize(alts)

    @staticmethod
    def var(name, ty):
        if ty == "bool":
            return Num([(TRUE, z3.Bool(name), "bool")])
        if ty == "int":
            return Num([(TRUE, z3.Int(name), "int")])
        return Num([(TRUE, z3.Real(name), "float")])

    def types(self):
        return [(g, ty) for g, _, ty in self.alts]

    def single(self):
        return len(self.alts) == 1

    def has_inf(self):
        return any(isinstance(t, float) for _, t, _ in self.alts)

    def real(self):
        """Collapse to one z3 Real term (all alternatives must be finite)."""
        alts = self.alts
        if any(isinstance(t, float) for _, t, _ in alts):
            raise Unsupported("infinite alternative reaches arithmetic collapse")
        out = _as_real(alts[-1][1], alts[-1][2])
        for g, t, ty in reversed(alts[:-1]):
            out = mk_ite(g, _as_real(t, ty), out)
        return out

    def truthy(self):
        out = None
        for g, t, ty in reversed(self.alts):
            if isinstance(t, float):
                b = TRUE
            elif ty == "bool":
                b = t
            else:
                b = t != 0
            out = b if out is None else mk_ite(g, b, out)
        return out

    def __repr__(self):
        return "Num(" + "; ".join(f"[{g}] {t}:{ty}" for g, t, ty in self.alts) + ")"


def _as_real(t, ty):
    if ty == "bool":
        return z3.If(t, z3.RealVal(1), z3.RealVal(0))
    if ty == "int":
        if z3.is_int_value(t):
            return z3.RealVal(t.as_long())
        return z3.ToReal(t)
    return t


def _as_int(t, ty):
    if ty == "bool":
        return z3.If(t, z3.IntVal(1), z3.IntVal(0))
    return t


def _normalize(alts):
    groups = {}
    order = []
    for g, t, ty in alts:
        if is_false(g):
            continue
        key = (ty, t if isinstance(t, float) else None)
        if key not in groups:
            groups[key] = []
            order.append(key)
        groups[key].append((g, t))
    out = []
    for key in order:
        items = groups[key]
        ty = key[0]
        if key[1] is not None:
            out.append((mk_or(*[g for g, _ in items]), key[1], ty))
            continue
        term = items[-1][1]
        for g, t in reversed(items[:-1]):
            term = mk_ite(g, t, term)
        out.append((mk_or(*[g for g, _ in items]), term, ty))
    if not out:
        raise Unsupported("value with no feasible alternative")
    return out


def to_num(x) -> Num:
    if isinstance(x, Num):
        return x
    if isinstance(x, bool):
        return Num([(TRUE, z3.BoolVal(x), "bool")])
    if isinstance(x, int):
        return Num([(TRUE, z3.IntVal(x), "int")])
    if isinstance(x, Fl):
        return Num([(TRUE, frac_to_z3real(x), "float")])
    if isinstance(x, float) and math.isinf(x):
        return Num([(TRUE, x, "float")])
    if x is None:
        raise PathAbort("TypeError", "None used as a number")
    raise Unsupported(f"not a number: {type(x).__name__}")


class InfiniteValue(Exception):
    def __init__(self, guard, value):
        super().__init__(f"value may be {value}")
        self.guard = guard
        self.value = value


def real_term(v, assumptions=(), timeout_s=10):
    """any numeric value (Num or concrete) -> one z3 Real term. Alternatives that are +-inf are
    dropped when their guard is infeasible under `assumptions` (decided by the solver);
    a feasible infinite alternative raises InfiniteValue."""
    n = to_num(v)
    if not n.has_inf():
        return n.real()
    from vt import solve

    alts = []
    for g, t, ty in n.alts:
        if isinstance(t, float):
            r = solve.check([*assumptions, g], timeout_s)
            if r.status == "unsat":
                continue
            raise InfiniteValue(g, t)
        alts.append((g, t, ty))
    return Num(alts).real()


class Alt:
    """Guarded choice between arbitrary (non-numeric) objects."""

    __slots__ = ("alts",)

    def __init__(self, alts):
        self.alts = [(g, v) for g, v in alts if not is_false(g)]


def merge_values(c, a, b):
    """Value that equals a when c else b."""
    if a is b:
        return a
    if is_true(c):
        return a
    if is_false(c):
        return b
    try:
        if not isinstance(a, (Num, Alt, Undefined)) and not isinstance(b, (Num, Alt, Undefined)):
            if type(a) is type(b) and not isinstance(a, numpy.ndarray) and a == b:
                return a
    except Exception:  # noqa: BLE001
        pass
    num_a = isinstance(a, Num) or is_conc_num(a)
    num_b = isinstance(b, Num) or is_conc_num(b)
    if num_a and num_b:
        na, nb = to_num(a), to_num(b)
        return Num(
            [(mk_and(c, g), t, ty) for g, t, ty in na.alts]
            + [(mk_and(mk_not(c), g), t, ty) for g, t, ty in nb.alts]
        )
    la = a.alts if isinstance(a, Alt) else [(TRUE, a)]
    lb = b.alts if isinstance(b, Alt) else [(TRUE, b)]
    return Alt([(mk_and(c, g), v) for g, v in la] + [(mk_and(mk_not(c), g), v) for g, v in lb])


# ----------------------------------------------------------------------------------
# exact concrete arithmetic with Python typing rules
# ----------------------------------------------------------------------------------
def _conc_binop(op, a, b):
    inf_a = isinstance(a, float)
    inf_b = isinstance(b, float)
    if inf_a or inf_b:
        fa = a if inf_a else float(a)
        fb = b if inf_b else float(b)
        r = _PYOPS[op](fa, fb)
        return lift(r)
    fl = isinstance(a, Fl) or isinstance(b, Fl)
    if op is ast.Div:
        if b == 0:
            raise ZeroDivisionError
        return Fl(Fraction(a) / Fraction(b))
    if op is ast.Pow:
        if isinstance(b, Fl) and b.denominator != 1:
            return lift(float(a) ** float(b))
        e = int(b)
        if e < 0 or fl:
            return Fl(Fraction(a) ** e)
        return int(a) ** e
    if op is ast.FloorDiv:
        r = Fraction(a) // Fraction(b)
        return Fl(r) if fl else int(r)
    if op is ast.Mod:
        r = Fraction(a) % Fraction(b)
        return Fl(r) if fl else int(r)
    if fl:
        r = _PYOPS[op](Fraction(a), Fraction(b))
        return Fl(r)
    return _PYOPS[op](int(a), int(b))


_PYOPS = {
    ast.Add: lambda a, b: a + b,
    ast.Sub: lambda a, b: a - b,
    ast.Mult: lambda a, b: a * b,
    ast.Div: lambda a, b: a / b,
    ast.FloorDiv: lambda a, b: a // b,
    ast.Mod: lambda a, b: a % b,
    ast.Pow: lambda a, b: a**b,
}

_CMPS = {
    ast.Lt: lambda a, b: a < b,
    ast.LtE: lambda a, b: a <= b,
    ast.Gt: lambda a, b: a > b,
    ast.GtE: lambda a, b: a >= b,
    ast.Eq: lambda a, b: a == b,
    ast.NotEq: lambda a, b: a != b,
}


# ----------------------------------------------------------------------------------
# the executor
# ----------------------------------------------------------------------------------
class Obligation:
    __slots__ = ("kind", "cond", "where", "detail")

    def __init__(self, kind, cond, where, detail=""):
        self.kind = kind  # key | index | div0 | raise | infarith | undefined
        self.cond = cond  # z3 Bool that must be UNSAT (together with the precondition)
        self.where = where
        self.detail = detail

    def __repr__(self):
        return f"Obl({self.kind} @{self.where} {self.detail})"


class Frame:
    def __init__(self, fname, filename, firstline):
        self.fname = fname
        self.filename = filename
        self.firstline = firstline
        self.returns = []  # (guard, value)
        self.raises = []  # (guard, exception type name, lineno)


class Summary:
    def __init__(self, func_name, result, returns, raises, obligations, reads, args, where):
        self.func_name = func_name
        self.result = result  # merged value (Num / concrete / Alt) or None
        self.returns = returns  # list of (guard, value)
        self.raises = raises  # list of (guard, exc name, where)
        self.obligations = obligations
        self.reads = reads  # set of parameter paths read
        self.args = args
        self.where = where


def func_ast(func, unwrap=True):
    """(FunctionDef node, filename, first line) of the *real* function object."""
    f = inspect.unwrap(func) if unwrap else func
    src = inspect.getsource(f if unwrap else f.__code__)
    tree = ast.parse(textwrap.dedent(src))
    node = tree.body[0]
    if not isinstance(node, (ast.FunctionDef,)):
        raise Unsupported(f"{func}: not a plain function")
    try:
        filename = inspect.getsourcefile(f) or "?"
        firstline = f.__code__.co_firstlineno
    except Exception:  # noqa: BLE001
        filename, firstline = "?", 0
    return node, filename, firstline, f


class Executor:
    """Symbolic executor. One instance per summarised top-level call."""

    MAX_INLINE_DEPTH = 8

    def __init__(self, inline_pred=None, range_bound=None, contracts=None, numpy_mode=False):
        self.obligations: list[Obligation] = []
        self.reads: set = set()
        self.param_paths: dict[int, tuple] = {}
        self.inline_pred = inline_pred or default_inline_pred
        self.range_bound = range_bound  # bound for `range(<symbolic>)` unrolling
        self.assumed_bounds = []
        self.contracts = contracts or {}
        self.numpy_mode = numpy_mode  # elementwise numpy semantics for C09 (where, logical_*)
        self.fresh_counter = 0
        self.frames = []

    # -- bookkeeping ---------------------------------------------------------------
    def register_params(self, name, obj):
        def rec(o, path):
            if isinstance(o, dict):
                self.param_paths[id(o)] = path
                for k, v in o.items():
                    rec(v, (*path, k))
            elif isinstance(o, (list, numpy.ndarray)):
                self.param_paths[id(o)] = path

        rec(obj, (name,))

    def note_read(self, obj, key=None):
        p = self.param_paths.get(id(obj))
        if p is not None:
            self.reads.add(p if key is None else (*p, key if is_hashable_simple(key) else "*"))

    def where(self, node):
        fr = self.frames[-1] if self.frames else None
        if fr is None:
            return "?"
        return f"{fr.filename}:{fr.firstline + getattr(node, 'lineno', 1) - 1} ({fr.fname})"

    def oblige(self, kind, cond, node, detail=""):
        if is_false(cond):
            return
        self.obligations.append(Obligation(kind, cond, self.where(node), detail))

    def record_abort(self, pa, guard, node):
        self.frames[-1].raises.append((guard, pa.exc, self.where(node) if node is not None else "?"))
        if not pa.obliged:
            self.oblige("raise", guard, node if node is not None else ast.Pass(lineno=1), f"{pa.exc}: {pa.detail}")

    def dist(self, alts, fn, pc, node):
        """Apply fn(value, pc) to every guarded alternative; an alternative that raises aborts
        only its own guard."""
        results = []
        last = None
        for g, v in alts:
            if is_false(g):
                continue
            try:
                results.append((g, fn(v, mk_and(pc, g))))
            except PathAbort as pa:
                self.record_abort(pa, mk_and(pc, g), node)
                last = pa
        if not results:
            raise PathAbort(last.exc if last else "Exception", "every alternative raises", True)
        return _merge_guarded(results)

    def fresh(self, base, ty):
        self.fresh_counter += 1
        return Num.var(f"{base}!{self.fresh_counter}", ty)

    # -- calling -------------------------------------------------------------------
    def call_function(self, func, args: dict, pc=TRUE, unwrap=True, node_override=None, extra_globals=None):
        node, filename, firstline, f = func_ast(func, unwrap)
        if node_override is not None:
            node = node_override  # e.g. the AST produced by the real _make_vectorizable_ast for `func`
        if len(self.frames) >= self.MAX_INLINE_DEPTH:
            raise Unsupported("inline depth exceeded", node)
        fr = Frame(node.name, filename, firstline)
        fr.entry_pc = pc
        self.frames.append(fr)
        try:
            env = {}
            a = node.args
            if a.posonlyargs:
                raise Unsupported("positional-only arguments", node)
            args = dict(args)
            if a.vararg:
                env[a.vararg.arg] = tuple(args.pop("*", ()))
            if a.kwarg:
                env[a.kwarg.arg] = dict(args.pop("**", {}))
            names = [x.arg for x in a.args] + [x.arg for x in a.kwonlyargs]
            defaults = {}
            nd = len(a.defaults)
            for x, d in zip(a.args[len(a.args) - nd :], a.defaults):
                defaults[x.arg] = d
            for x, d in zip(a.kwonlyargs, a.kw_defaults):
                if d is not None:
                    defaults[x.arg] = d
            for n in names:
                if n in args:
                    env[n] = args[n]
                elif n in defaults:
                    env[n] = self.eval(defaults[n], {"__globals__": f.__globals__ if not extra_globals else {**f.__globals__, **extra_globals}}, pc)
                else:
                    raise Unsupported(f"missing argument {n} for {node.name}", node)
            extra = set(args) - set(names)
            if extra:
                raise Unsupported(f"unexpected arguments {extra} for {node.name}", node)
            env["__globals__"] = f.__globals__ if not extra_globals else {**f.__globals__, **extra_globals}
            env["__locals__"] = {n.id for n in ast.walk(node) if isinstance(n, ast.Name) and isinstance(n.ctx, ast.Store)}
            if f.__closure__:
                env["__closure__"] = dict(zip(f.__code__.co_freevars, [c.cell_contents for c in f.__closure__]))
            env, live = self.exec_block(node.body, env, pc)
            if not is_false(live):
                fr.returns.append((live, None))
            return fr
        finally:
            self.frames.pop()

    def result_of(self, fr: Frame):
        rets = fr.returns
        if not rets:
            return UNDEF
        val = rets[-1][1]
        for g, v in reversed(rets[:-1]):
            val = merge_values(g, v, val)
        return val

    # -- statements ----------------------------------------------------------------
    def exec_block(self, stmts, env, pc):
        live = pc
        for s in stmts:
            if is_false(live):
                break
            env, live = self.exec_stmt(s, env, live)
        return env, live

    def exec_stmt(self, s, env, pc):
        try:
            return self._exec_stmt(s, env, pc)
        except PathAbort as pa:
            self.record_abort(pa, pc, s)
            return env, FALSE

    def _exec_stmt(self, s, env, pc):
        if isinstance(s, ast.Expr):
            if isinstance(s.value, ast.Constant):
                return env, pc  # docstring
            self.eval(s.value, env, pc)
            return env, pc
        if isinstance(s, ast.Pass):
            return env, pc
        if isinstance(s, ast.Assign):
            v = self.eval(s.value, env, pc)
            for t in s.targets:
                self.assign(t, v, env, pc)
            return env, pc
        if isinstance(s, ast.AnnAssign):
            if s.value is not None:
                self.assign(s.target, self.eval(s.value, env, pc), env, pc)
            return env, pc
        if isinstance(s, ast.AugAssign):
            cur = self.eval(_load_of(s.target), env, pc)
            v = self.eval(s.value, env, pc)
            if isinstance(cur, (list, dict, set, numpy.ndarray)):
                raise Unsupported("augmented assignment on a container", s)
            self.assign(s.target, self.binop(type(s.op), cur, v, pc, s), env, pc)
            return env, pc
        if isinstance(s, ast.Return):
            v = self.eval(s.value, env, pc) if s.value is not None else None
            self.frames[-1].returns.append((pc, v))
            return env, FALSE
        if isinstance(s, ast.Raise):
            name = "Exception"
            if s.exc is not None:
                e = s.exc.func if isinstance(s.exc, ast.Call) else s.exc
                name = ast.unparse(e)
            self.frames[-1].raises.append((pc, name, self.where(s)))
            self.oblige("raise", pc, s, name)
            return env, FALSE
        if isinstance(s, ast.Match):
            # `match subject:` with literal / singleton / or-patterns and a wildcard, without guards: the
            # same as an if / elif chain on equality (subject evaluated once, bound to a fresh name)
            tmp = f"__match_subject_{s.lineno}"
            env = dict(env)
            env[tmp] = self.eval(s.subject, env, pc)
            subj = ast.Name(id=tmp, ctx=ast.Load())

            def test_of(pat):
                if isinstance(pat, ast.MatchValue):
                    return ast.Compare(left=subj, ops=[ast.Eq()], comparators=[pat.value])
                if isinstance(pat, ast.MatchSingleton):
                    return ast.Compare(left=subj, ops=[ast.Is()], comparators=[ast.Constant(pat.value)])
                if isinstance(pat, ast.MatchOr):
                    return ast.BoolOp(op=ast.Or(), values=[test_of(p_) for p_ in pat.patterns])
                if isinstance(pat, ast.MatchAs) and pat.pattern is None and pat.name is None:
                    return None  # wildcard
                raise Unsupported(f"match pattern {ast.unparse(pat)}")

            chain = None
            for case in reversed(s.cases):
                if case.guard is not None:
                    raise Unsupported("match case with a guard")
                t_ = test_of(case.pattern)
                if t_ is None:
                    chain = list(case.body)
                else:
                    node = ast.If(test=t_, body=list(case.body), orelse=chain or [])
                    ast.copy_location(node, case.body[0])
                    ast.fix_missing_locations(node)
                    chain = [node]
            out_env, live = self.exec_block(chain or [], env, pc)
            out_env = dict(out_env)
            out_env.pop(tmp, None)
            return out_env, live
        if isinstance(s, ast.If):
            c = self.truthy(self.eval(s.test, env, pc))
            if c is True:
                return self.exec_block(s.body, env, pc)
            if c is False:
                return self.exec_block(s.orelse, env, pc)
            env1, live1 = self.exec_block(s.body, dict(env), mk_and(pc, c))
            env2, live2 = self.exec_block(s.orelse, dict(env), mk_and(pc, mk_not(c)))
            if is_false(live1):
                return env2, live2
            if is_false(live2):
                return env1, live1
            out = {}
            for k in set(env1) | set(env2):
                a = env1.get(k, UNDEF)
                b = env2.get(k, UNDEF)
                out[k] = a if a is b else merge_values(c, a, b)
            return out, mk_or(live1, live2)
        if isinstance(s, ast.For):
            it = self.eval(s.iter, env, pc)
            items = self.iterate(it, s, pc)
            live = pc
            for guard, item in items:
                if is_false(live):
                    break
                if is_true(guard):
                    self.assign(s.target, item, env, live)
                    env, live = self.exec_block(s.body, env, live)
                else:
                    env1 = dict(env)
                    self.assign(s.target, item, env1, mk_and(live, guard))
                    env1, live1 = self.exec_block(s.body, env1, mk_and(live, guard))
                    out = {}
                    for k in set(env1) | set(env):
                        a = env1.get(k, UNDEF)
                        b = env.get(k, UNDEF)
                        out[k] = a if a is b else merge_values(guard, a, b)
                    env = out
                    live = mk_or(live1, mk_and(live, mk_not(guard)))
            if s.orelse:
                env, live = self.exec_block(s.orelse, env, live)
            return env, live
        if isinstance(s, ast.Assert):
            c = self.truthy(self.eval(s.test, env, pc))
            bad = mk_and(pc, mk_not(_b(c)))
            self.frames[-1].raises.append((bad, "AssertionError", self.where(s)))
            self.oblige("raise", bad, s, "AssertionError")
            return env, mk_and(pc, _b(c))
        raise Unsupported(f"statement {type(s).__name__}", s)

    def assign(self, target, value, env, pc):
        if isinstance(target, ast.Name):
            env[target.id] = value
            return
        if isinstance(target, (ast.Tuple, ast.List)):
            vals = list(value) if isinstance(value, (list, tuple)) else None
            if vals is None or len(vals) != len(target.elts):
                raise Unsupported("tuple unpacking of a non-tuple", target)
            for t, v in zip(target.elts, vals):
                self.assign(t, v, env, pc)
            return
        if isinstance(target, (ast.Subscript, ast.Attribute)):
            # mutation of a concrete container / object: only on the unconditional path
            fr = self.frames[-1]
            if not (pc is fr.entry_pc or pc.eq(fr.entry_pc)):
                raise Unsupported("store into a container under a symbolic branch", target)
            obj = self.eval(target.value, env, pc)
            if isinstance(obj, (Num, Alt)):
                raise Unsupported("store into a symbolic value", target)
            if isinstance(target, ast.Attribute):
                setattr(obj, target.attr, value)
                return
            key = self.eval(target.slice, env, pc)
            if isinstance(key, (Num, Alt)):
                raise Unsupported("store with a symbolic key", target)
            obj[key] = value
            return
        raise Unsupported(f"assignment target {type(target).__name__}", target)

    # -- expressions ---------------------------------------------------------------
    def truthy(self, v):
        """-> True | False | z3 Bool"""
        if isinstance(v, Num):
            return v.truthy()
        if isinstance(v, Alt):
            out = FALSE
            for g, x in v.alts:
                t = self.truthy(x)
                out = mk_or(out, mk_and(g, _b(t)))
            return out
        if isinstance(v, Undefined):
            raise Unsupported("truth value of an undefined name")
        if isinstance(v, numpy.ndarray):
            raise Unsupported("truth value of an array")
        return bool(v)

    def lookup(self, name, env, node, pc=TRUE):
        if name in env:
            v = env[name]
            if isinstance(v, Undefined):
                self.oblige("undefined", pc, node, f"name {name!r} is unbound here")
                return self.fresh("unbound", "float")
            if isinstance(v, Alt) and any(isinstance(x, Undefined) for _, x in v.alts):
                bad = mk_or(*[g for g, x in v.alts if isinstance(x, Undefined)])
                self.oblige("undefined", mk_and(pc, bad), node, f"name {name!r} may be unbound (UnboundLocalError)")
                rest = [(g, x) for g, x in v.alts if not isinstance(x, Undefined)]
                if not rest:
                    return self.fresh("unbound", "float")
                v = _merge_guarded(rest)
                env[name] = v
            return v
        if name in env.get("__locals__", ()):
            self.oblige("undefined", pc, node, f"local {name!r} is unbound here (UnboundLocalError)")
            raise PathAbort("UnboundLocalError", name, True)
        clo = env.get("__closure__")
        if clo and name in clo:
            return lift(clo[name])
        g = env.get("__globals__", {})
        if name in g:
            return lift(g[name])
        if hasattr(builtins, name):
            return getattr(builtins, name)
        raise Unsupported(f"unknown name {name!r}", node)

    def eval(self, e, env, pc):  # noqa: C901, PLR0911, PLR0912
        if isinstance(e, ast.Constant):
            return lift(e.value)
        if isinstance(e, ast.Name):
            return self.lookup(e.id, env, e, pc)
        if isinstance(e, ast.BinOp):
            return self.binop(type(e.op), self.eval(e.left, env, pc), self.eval(e.right, env, pc), pc, e)
        if isinstance(e, ast.UnaryOp):
            v = self.eval(e.operand, env, pc)
            if isinstance(e.op, ast.Not):
                t = self.truthy(v)
                if isinstance(t, bool):
                    return not t
                return Num([(TRUE, mk_not(t), "bool")])
            if isinstance(e.op, ast.USub):
                return self.binop(ast.Sub, 0, v, pc, e) if not isinstance(v, Fl) else Fl(-v)
            if isinstance(e.op, ast.UAdd):
                return self.binop(ast.Add, 0, v, pc, e)
            raise Unsupported("unary operator", e)
        if isinstance(e, ast.BoolOp):
            return self.boolop(e, env, pc)
        if isinstance(e, ast.Compare):
            left = self.eval(e.left, env, pc)
            result = None
            cur_pc = pc
            for op, rnode in zip(e.ops, e.comparators):
                right = self.eval(rnode, env, cur_pc)
                c = self.compare(type(op), left, right, cur_pc, e)
                if result is None:
                    result = c
                else:
                    result = self._and_vals(result, c)
                t = self.truthy(result)
                if t is False:
                    return False
                if t is not True:
                    cur_pc = mk_and(cur_pc, t)
                left = right
            return result
        if isinstance(e, ast.IfExp):
            c = self.truthy(self.eval(e.test, env, pc))
            if c is True:
                return self.eval(e.body, env, pc)
            if c is False:
                return self.eval(e.orelse, env, pc)
            a = self._eval_or_abort(e.body, env, mk_and(pc, c), e)
            b = self._eval_or_abort(e.orelse, env, mk_and(pc, mk_not(c)), e)
            if a is ABORTED and b is ABORTED:
                raise PathAbort("Exception", "both branches of a conditional expression raise")
            if a is ABORTED:
                return b
            if b is ABORTED:
                return a
            return merge_values(c, a, b)
        if isinstance(e, ast.Subscript):
            obj = self.eval(e.value, env, pc)
            if isinstance(e.slice, ast.Slice):
                lo = self.eval(e.slice.lower, env, pc) if e.slice.lower else None
                hi = self.eval(e.slice.upper, env, pc) if e.slice.upper else None
                st = self.eval(e.slice.step, env, pc) if e.slice.step else None
                if any(isinstance(x, (Num, Alt)) for x in (lo, hi, st)):
                    raise Unsupported("symbolic slice", e)
                return self.subscript(obj, slice(lo, hi, st), pc, e)
            key = self.eval(e.slice, env, pc)
            return self.subscript(obj, key, pc, e)
        if isinstance(e, ast.Attribute):
            obj = self.eval(e.value, env, pc)
            return self.getattr(obj, e.attr, pc, e)
        if isinstance(e, ast.Call):
            return self.call(e, env, pc)
        if isinstance(e, (ast.List, ast.Tuple, ast.Set)):
            items = []
            for x in e.elts:
                if isinstance(x, ast.Starred):
                    v = self.eval(x.value, env, pc)
                    items.extend(g_item for _, g_item in self.iterate(v, x, pc, need_true=True))
                else:
                    items.append(self.eval(x, env, pc))
            if isinstance(e, ast.List):
                return items
            if isinstance(e, ast.Tuple):
                return tuple(items)
            if any(isinstance(x, (Num, Alt)) for x in items):
                raise Unsupported("set with symbolic members", e)
            return set(items)
        if isinstance(e, ast.Dict):
            d = {}
            for k, v in zip(e.keys, e.values):
                if k is None:
                    raise Unsupported("dict unpacking", e)
                kk = self.eval(k, env, pc)
                if isinstance(kk, (Num, Alt)):
                    raise Unsupported("symbolic dict key", e)
                d[kk] = self.eval(v, env, pc)
            return d
        if isinstance(e, (ast.ListComp, ast.GeneratorExp, ast.SetComp, ast.DictComp)):
            return self.comprehension(e, env, pc)
        if isinstance(e, ast.JoinedStr):
            return "<f-string>"
        if isinstance(e, ast.Lambda):
            raise Unsupported("lambda", e)
        raise Unsupported(f"expression {type(e).__name__}", e)

    def _eval_or_abort(self, e, env, pc, node):
        try:
            return self.eval(e, env, pc)
        except PathAbort as pa:
            self.record_abort(pa, pc, node)
            return ABORTED

    def _and_vals(self, a, b):
        ta, tb = self.truthy(a), self.truthy(b)
        if ta is False or tb is False:
            return False
        if ta is True:
            return b
        if tb is True:
            return a
        return Num([(TRUE, mk_and(ta, tb), "bool")])

    def boolop(self, e, env, pc):
        is_and = isinstance(e.op, ast.And)
        # Python: `a and b` -> a if not a else b ; `a or b` -> a if a else b
        vals = e.values
        first = self.eval(vals[0], env, pc)
        return self._boolop_rest(is_and, first, vals[1:], env, pc)

    def _boolop_rest(self, is_and, first, rest, env, pc):
        if not rest:
            return first
        t = self.truthy(first)
        if isinstance(t, bool):
            if t == is_and:  # continue evaluating
                nxt = self.eval(rest[0], env, pc)
                return self._boolop_rest(is_and, nxt, rest[1:], env, pc)
            return first
        cont = t if is_and else mk_not(t)
        try:
            nxt = self.eval(rest[0], env, mk_and(pc, cont))
            tail = self._boolop_rest(is_and, nxt, rest[1:], env, mk_and(pc, cont))
        except PathAbort as pa:
            self.record_abort(pa, mk_and(pc, cont), None)
            return first
        # result: tail if cont else first
        if isinstance(first, Num) and all(ty == "bool" for _, _, ty in first.alts):
            tt = self.truthy(tail)
            tail_is_bool = isinstance(tail, bool) or (
                isinstance(tail, Num) and all(ty == "bool" for _, _, ty in tail.alts)
            )
            if tail_is_bool:
                tb = _b(tt)
                return Num([(TRUE, mk_and(t, tb) if is_and else mk_or(t, tb), "bool")])
        return merge_values(cont, tail, first)

    # arithmetic ---------------------------------------------------------------------
    def binop(self, op, a, b, pc, node):  # noqa: C901, PLR0912
        if isinstance(a, Alt) or isinstance(b, Alt):
            return self._distribute2(lambda x, y, p: self.binop(op, x, y, p, node), a, b, pc)
        if is_conc_num(a) and is_conc_num(b):
            try:
                return _conc_binop(op, a, b)
            except ZeroDivisionError:
                self.oblige("div0", pc, node, "constant zero divisor")
                return self.fresh("div0", "float")
        if not ((isinstance(a, Num) or is_conc_num(a)) and (isinstance(b, Num) or is_conc_num(b))):
            if a is None or b is None:
                self.oblige("key", pc, node, "TypeError: arithmetic on None (parameter not defined at this date)")
                raise PathAbort("TypeError", "arithmetic on None", True)
            if isinstance(a, (Num, Alt)) or isinstance(b, (Num, Alt)):
                raise Unsupported(f"arithmetic on {type(a).__name__} and {type(b).__name__}", node)
            # plain python objects (list + list, str + str, numpy arrays ...)
            try:
                return lift(_PYOPS[op](unlift(a), unlift(b)))
            except Exception as ex:  # noqa: BLE001
                raise Unsupported(f"concrete binop failed: {ex}", node) from ex
        na, nb = to_num(a), to_num(b)
        alts = []
        for ga, ta, tya in na.alts:
            for gb, tb, tyb in nb.alts:
                g = mk_and(ga, gb)
                if is_false(g):
                    continue
                alts.extend(self._binop_alt(op, g, ta, tya, tb, tyb, pc, node))
        return Num(alts)

    def _binop_alt(self, op, g, ta, tya, tb, tyb, pc, node):  # noqa: C901, PLR0911, PLR0912
        infa, infb = isinstance(ta, float), isinstance(tb, float)
        if infa or infb:
            return self._inf_arith(op, g, ta, tya, tb, tyb, pc, node)
        both_int = tya in ("bool", "int") and tyb in ("bool", "int")
        if op in (ast.Add, ast.Sub, ast.Mult):
            if both_int:
                x, y = _as_int(ta, tya), _as_int(tb, tyb)
                r = x + y if op is ast.Add else x - y if op is ast.Sub else x * y
                return [(g, z3.simplify(r) if _is_val(x) and _is_val(y) else r, "int")]
            x, y = _as_real(ta, tya), _as_real(tb, tyb)
            r = x + y if op is ast.Add else x - y if op is ast.Sub else x * y
            return [(g, r, "float")]
        if op is ast.Div:
            x, y = _as_real(ta, tya), _as_real(tb, tyb)
            self.oblige("div0", mk_and(pc, g, _eq0(y)), node, "divisor may be zero")
            return [(g, x / y, "float")]
        if op in (ast.FloorDiv, ast.Mod):
            x, y = _as_real(ta, tya), _as_real(tb, tyb)
            self.oblige("div0", mk_and(pc, g, _eq0(y)), node, "divisor may be zero")
            q = z3.ToInt(x / y)  # floor
            if op is ast.FloorDiv:
                return [(g, q, "int")] if both_int else [(g, z3.ToReal(q), "float")]
            if both_int:
                return [(g, _as_int(ta, tya) - _as_int(tb, tyb) * q, "int")]
            return [(g, x - y * z3.ToReal(q), "float")]
        if op is ast.Pow:
            if _is_val(tb) and tyb in ("int", "bool") or (tyb == "float" and _is_val(tb) and _z3_frac(tb).denominator == 1):
                n = int(_z3_frac(tb))
                if 0 <= n <= 8 and not (tyb == "float" and both_int):
                    base_int = both_int
                    x = _as_int(ta, tya) if base_int else _as_real(ta, tya)
                    r = z3.IntVal(1) if base_int else z3.RealVal(1)
                    for _ in range(n):
                        r = r * x
                    ty = "int" if base_int else "float"
                    return [(g, r, ty)]
            raise Unsupported("power with a symbolic / negative / fractional exponent", node)
        raise Unsupported(f"operator {op.__name__}", node)

    def _inf_arith(self, op, g, ta, tya, tb, tyb, pc, node):
        infa, infb = isinstance(ta, float), isinstance(tb, float)
        if infa and infb:
            try:
                r = _PYOPS[op](ta, tb)
            except ZeroDivisionError:
                r = float("nan")
            if math.isnan(r):
                self.oblige("infarith", mk_and(pc, g), node, "inf (op) inf is NaN")
                return [(g, z3.Real(f"nan!{id(node)}"), "float")]
            return [(g, r, "float")]
        if op in (ast.Add, ast.Sub):
            if infa:
                return [(g, ta, "float")]
            return [(g, tb if op is ast.Add else -tb, "float")]
        if op is ast.Div and infb:
            return [(g, z3.RealVal(0), "float")]
        if op in (ast.Mult, ast.Div):
            fin, fty = (tb, tyb) if infa else (ta, tya)
            inf = ta if infa else tb
            x = _as_real(fin, fty)
            self.oblige("infarith", mk_and(pc, g, x == 0), node, "0 * inf is NaN")
            return [(mk_and(g, x > 0), inf, "float"), (mk_and(g, x < 0), -inf, "float"), (mk_and(g, x == 0), z3.RealVal(0), "float")]
        if op is ast.Pow and infa and _is_val(tb):
            n = _z3_frac(tb)
            if n > 0:
                sign = ta if (n.denominator == 1 and int(n) % 2 == 1) else INF
                return [(g, sign, "float")]
        self.oblige("infarith", mk_and(pc, g), node, f"inf reaches {op.__name__}")
        return [(g, z3.Real(f"infarith!{id(node)}"), "float")]

    def compare(self, op, a, b, pc, node):  # noqa: C901, PLR0911, PLR0912
        if op in (ast.In, ast.NotIn):
            r = self.contains(b, a, pc, node)
            if op is ast.NotIn:
                return (not r) if isinstance(r, bool) else Num([(TRUE, mk_not(r.truthy()), "bool")])
            return r
        if op in (ast.Is, ast.IsNot):
            if isinstance(a, (Num, Alt)) or isinstance(b, (Num, Alt)):
                if a is None or b is None:
                    if isinstance(a, Alt) or isinstance(b, Alt):
                        alt = a if isinstance(a, Alt) else b
                        c = mk_or(*[g for g, v in alt.alts if v is None])
                        if op is ast.IsNot:
                            c = mk_not(c)
                        return Num([(TRUE, c, "bool")])
                    return op is ast.IsNot
                raise Unsupported("identity comparison of symbolic values", node)
            r = a is b
            return r if op is ast.Is else not r
        if isinstance(a, Alt) or isinstance(b, Alt):
            return self._distribute2(lambda x, y, p: self.compare(op, x, y, p, node), a, b, pc)
        if is_conc_num(a) and is_conc_num(b):
            return bool(_CMPS[op](a, b))
        if not ((isinstance(a, Num) or is_conc_num(a)) and (isinstance(b, Num) or is_conc_num(b))):
            if isinstance(a, Num) or isinstance(b, Num):
                if op is ast.Eq:
                    return False
                if op is ast.NotEq:
                    return True
                raise Unsupported("ordering comparison of a number with a non-number", node)
            try:
                r = _CMPS[op](unlift(a), unlift(b))
            except TypeError as ex:
                # the program itself raises here (e.g. max() over a table that contains a string key)
                raise PathAbort("TypeError", str(ex)) from ex
            if isinstance(r, numpy.ndarray):
                return r
            return bool(r)
        na, nb = to_num(a), to_num(b)
        out = FALSE
        for ga, ta, tya in na.alts:
            for gb, tb, tyb in nb.alts:
                g = mk_and(ga, gb)
                if is_false(g):
                    continue
                out = mk_or(out, mk_and(g, _cmp_terms(op, ta, tya, tb, tyb)))
        return Num([(TRUE, out, "bool")])

    def contains(self, container, item, pc, node):
        if isinstance(container, Alt):
            return self._distribute2(lambda c, i, p: self.contains(c, i, p, node), container, item, pc)
        if isinstance(container, (Num,)):
            raise Unsupported("membership in a number", node)
        if isinstance(container, dict):
            self.note_read(container)
            keys = list(container.keys())
        elif isinstance(container, (list, tuple, set, frozenset, range, numpy.ndarray, type({}.keys()), type({}.values()))):
            keys = list(container)
        elif isinstance(container, str) and isinstance(item, str):
            return item in container
        else:
            raise Unsupported(f"membership in {type(container).__name__}", node)
        if isinstance(item, Alt):
            return self._distribute2(lambda c, i, p: self.contains(c, i, p, node), container, item, pc)
        if not isinstance(item, Num):
            if any(isinstance(k, (Num, Alt)) for k in keys):
                out = FALSE
                for k in keys:
                    c = self.compare(ast.Eq, item, k, pc, node)
                    out = mk_or(out, _b(self.truthy(c)))
                return Num([(TRUE, out, "bool")])
            return lift(item) in [lift(k) for k in keys]
        out = FALSE
        for k in keys:
            k = lift(k)
            if isinstance(k, Num) or is_conc_num(k):
                c = self.compare(ast.Eq, item, k, pc, node)
                out = mk_or(out, _b(self.truthy(c)))
        return Num([(TRUE, out, "bool")])

    def _distribute2(self, fn, a, b, pc):
        la = a.alts if isinstance(a, Alt) else [(TRUE, a)]
        lb = b.alts if isinstance(b, Alt) else [(TRUE, b)]
        pairs = [(mk_and(ga, gb), (va, vb)) for ga, va in la for gb, vb in lb]
        return self.dist(pairs, lambda vv, p: fn(vv[0], vv[1], p), pc, None)

    # containers ---------------------------------------------------------------------
    def subscript(self, obj, key, pc, node):  # noqa: C901, PLR0911, PLR0912
        if isinstance(obj, Alt) or isinstance(key, Alt):
            return self._distribute2(lambda o, k, p: self.subscript(o, k, p, node), obj, key, pc)
        if isinstance(obj, Num):
            raise Unsupported("subscript of a number", node)
        if isinstance(key, tuple) and any(isinstance(k, (Num, Alt)) for k in key):
            # numpy 2-d indexing rates[i, j] with a symbolic component
            if isinstance(obj, numpy.ndarray) and len(key) == 2:
                row = self.subscript(obj, key[0], pc, node)
                return self.subscript(row, key[1], pc, node)
            raise Unsupported("symbolic tuple index", node)
        if not isinstance(key, Num):
            k = key
            if isinstance(k, Fl):
                k = float(k)
            try:
                if isinstance(obj, dict):
                    self.note_read(obj, k)
                    return lift(obj[k])
                if isinstance(obj, (list, tuple, numpy.ndarray, str, range)):
                    if isinstance(obj, numpy.ndarray):
                        self.note_read(obj)
                    return lift(obj[k])
                return lift(obj[k])
            except (KeyError, IndexError) as ex:
                self.oblige("key", pc, node, f"{type(ex).__name__}: {k!r}")
                raise PathAbort(type(ex).__name__, repr(k), True) from ex
            except TypeError as ex:
                self.oblige("key", pc, node, f"TypeError: {ex}")
                raise PathAbort("TypeError", str(ex), True) from ex
            except Exception as ex:  # noqa: BLE001
                raise Unsupported(f"subscript failed: {ex}", node) from ex
        # symbolic key
        if isinstance(obj, dict):
            self.note_read(obj, "*")
            cands = [(k, v) for k, v in obj.items() if is_conc_num(lift(k))]
            results = []
            hit = FALSE
            for k, v in cands:
                c = _b(self.truthy(self.compare(ast.Eq, key, lift(k), pc, node)))
                if is_false(c):
                    continue
                hit = mk_or(hit, c)
                results.append((c, lift(v)))
            self.oblige("key", mk_and(pc, mk_not(hit)), node, f"key not in {sorted(map(str, (k for k, _ in cands)))[:12]}")
            if not results:
                raise PathAbort("KeyError", "no candidate key", True)
            return _merge_guarded(results)
        if isinstance(obj, (list, tuple, numpy.ndarray)):
            if isinstance(obj, numpy.ndarray):
                self.note_read(obj)
            n = len(obj)
            results = []
            hit = FALSE
            for i in range(-n, n):
                c = _b(self.truthy(self.compare(ast.Eq, key, i, pc, node)))
                if is_false(c):
                    continue
                hit = mk_or(hit, c)
                results.append((c, lift(obj[i])))
            self.oblige("index", mk_and(pc, mk_not(hit)), node, f"index outside [-{n},{n})")
            if not results:
                raise PathAbort("IndexError", "empty sequence", True)
            return _merge_guarded(results)
        raise Unsupported(f"symbolic subscript of {type(obj).__name__}", node)

    def getattr(self, obj, attr, pc, node):
        if isinstance(obj, Alt):
            return self.dist(obj.alts, lambda v, p: self.getattr(v, attr, p, node), pc, node)
        if isinstance(obj, Num) or is_conc_num(obj):
            if attr == "round":
                return BoundMethod("round", obj)
            if isinstance(obj, Num):
                raise Unsupported(f"attribute {attr} of a symbolic number", node)
        if isinstance(obj, Fl):
            obj = float(obj)
        try:
            v = getattr(obj, attr)
        except AttributeError as ex:
            if obj is None or is_conc_num(obj):
                self.oblige("key", pc, node, f"AttributeError: {ex}")
                raise PathAbort("AttributeError", str(ex), True) from ex
            raise Unsupported(f"attribute error: {ex}", node) from ex
        if isinstance(obj, dict) and attr in ("values", "keys", "items", "get"):
            self.note_read(obj, "*")
        return lift(v)

    def iterate(self, it, node, pc, need_true=False):
        """-> list of (guard, item)"""
        if isinstance(it, SymRange):
            if need_true:
                raise Unsupported("symbolic range in starred/comprehension context without guards", node)
            return it.items(self, pc, node)
        if isinstance(it, (Num, Alt)):
            raise Unsupported("iteration over a symbolic value", node)
        if isinstance(it, dict):
            self.note_read(it, "*")
        try:
            return [(TRUE, lift(x)) for x in it]
        except TypeError as ex:
            raise Unsupported(f"not iterable: {ex}", node) from ex

    def comprehension(self, e, env, pc):
        if len(e.generators) != 1:
            raise Unsupported("nested comprehension", e)
        gen = e.generators[0]
        it = self.eval(gen.iter, env, pc)
        items = self.iterate(it, e, pc)
        out = []
        for guard, item in items:
            env1 = dict(env)
            self.assign(gen.target, item, env1, pc)
            pcg = mk_and(pc, guard)
            keep = guard
            for cond in gen.ifs:
                c = self.truthy(self.eval(cond, env1, pcg))
                if c is False:
                    keep = FALSE
                    break
                if c is not True:
                    keep = mk_and(keep, c)
                    pcg = mk_and(pcg, c)
            if is_false(keep):
                continue
            if isinstance(e, ast.DictComp):
                if not is_true(keep):
                    raise Unsupported("dict comprehension with symbolic filter", e)
                out.append((self.eval(e.key, env1, pcg), self.eval(e.value, env1, pcg)))
            else:
                out.append((keep, self.eval(e.elt, env1, pcg)))
        if isinstance(e, ast.DictComp):
            return dict(out)
        if all(is_true(g) for g, _ in out):
            vals = [v for _, v in out]
            return set(vals) if isinstance(e, ast.SetComp) else vals
        return GuardedSeq(out)

    # calls --------------------------------------------------------------------------
    def call(self, e, env, pc):  # noqa: C901, PLR0911, PLR0912
        fn = self.eval(e.func, env, pc)
        args = []
        for a in e.args:
            if isinstance(a, ast.Starred):
                v = self.eval(a.value, env, pc)
                args.extend(x for _, x in self.iterate(v, a, pc, need_true=True))
            else:
                args.append(self.eval(a, env, pc))
        kwargs = {}
        for k in e.keywords:
            if k.arg is None:
                d = self.eval(k.value, env, pc)
                if not isinstance(d, dict):
                    raise Unsupported("**kwargs of a non-dict", e)
                kwargs.update(d)
                continue
            kwargs[k.arg] = self.eval(k.value, env, pc)
        return self.apply(fn, args, kwargs, pc, e)

    def apply(self, fn, args, kwargs, pc, node):  # noqa: C901, PLR0911, PLR0912
        if isinstance(fn, Alt):
            return self.dist(fn.alts, lambda v, p: self.apply(v, args, kwargs, p, node), pc, node)
        if isinstance(fn, BoundMethod) and fn.name == "round":
            # ndarray.round() / numpy scalar .round(): round half to even, result float
            r = _h_round(self, [fn.obj, 0, *args], kwargs, pc, node)
            return _h_float(self, [r], {}, pc, node)
        h = HANDLERS.get(_callable_key(fn))
        if h is not None:
            for i, a in enumerate(args):
                if isinstance(a, Alt):
                    return self.dist(a.alts, lambda v, p, i=i: self.apply(fn, [*args[:i], v, *args[i + 1 :]], kwargs, p, node), pc, node)
            for k, a in kwargs.items():
                if isinstance(a, Alt):
                    return self.dist(a.alts, lambda v, p, k=k: self.apply(fn, args, {**kwargs, k: v}, p, node), pc, node)
            return h(self, args, kwargs, pc, node)
        if inspect.ismethod(fn) or inspect.isbuiltin(fn):
            owner = getattr(fn, "__self__", None)
            name = getattr(fn, "__name__", "")
            if isinstance(owner, dict) and name in ("values", "keys", "items", "get", "copy"):
                if name == "get":
                    return self.dict_get(owner, args, pc, node)
                return getattr(owner, name)()
            if isinstance(owner, (list, tuple)) and name in ("index", "count", "copy"):
                if not any(isinstance(a, (Num, Alt)) for a in args):
                    return lift(getattr(owner, name)(*[unlift(a) for a in args]))
        sym = any(_is_symbolic(a) for a in args) or any(_is_symbolic(v) for v in kwargs.values())
        contract = self.contracts.get(_callable_key(fn))
        if contract is not None:
            return contract(self, args, kwargs, pc, node)
        if inspect.isfunction(fn) and self.inline_pred(fn):
            f0 = inspect.unwrap(fn)
            sig_names = list(inspect.signature(f0).parameters)
            amap = dict(zip(sig_names, args))
            amap.update(kwargs)
            fr = self.call_function(f0, amap, pc)
            if self.frames:
                self.frames[-1].raises.extend(fr.raises)
            if not fr.returns:
                raise PathAbort(fr.raises[0][1] if fr.raises else "Exception", f"{f0.__name__} raises on every path", True)
            return self.result_of(fr)
        if isinstance(fn, type) and issubclass(fn, BaseException):
            return ExcValue(fn.__name__)
        if not sym:
            try:
                return lift(fn(*[unlift(a) for a in args], **{k: unlift(v) for k, v in kwargs.items()}))
            except Exception as ex:  # noqa: BLE001
                raise Unsupported(f"native call {getattr(fn, '__name__', fn)} failed: {ex}", node) from ex
        raise Unsupported(f"call of {getattr(fn, '__qualname__', fn)} with symbolic arguments", node)

    def dict_get(self, d, args, pc, node):
        key = args[0]
        default = args[1] if len(args) > 1 else None
        if isinstance(key, (Num, Alt)):
            raise Unsupported("dict.get with symbolic key", node)
        self.note_read(d, key)
        return lift(d.get(unlift(key), default))


class BoundMethod:
    def __init__(self, name, obj):
        self.name = name
        self.obj = obj


class ExcValue:
    def __init__(self, name):
        self.name = name


class GuardedSeq:
    """A sequence whose members are present only under their guards (filtered comprehension)."""

    def __init__(self, items):
        self.items = items


class SymRange:
    """range(lo, hi) with a symbolic upper bound, unrolled up to `bound` iterations."""

    def __init__(self, lo, hi, bound):
        self.lo, self.hi, self.bound = lo, hi, bound

    def items(self, ex: Executor, pc, node):
        if not isinstance(self.lo, int):
            raise Unsupported("range with symbolic lower bound", node)
        hi = to_num(self.hi)
        hterm = hi.alts[0][1] if hi.single() else None
        if hterm is None or hi.alts[0][2] != "int":
            raise Unsupported("range bound must be a single int term", node)
        out = []
        for i in range(self.lo, self.lo + self.bound):
            out.append((z3.IntVal(i) < hterm, i))
        ex.assumed_bounds.append((hterm, self.lo + self.bound, ex.where(node)))
        ex.oblige("range_bound", mk_and(pc, hterm > self.lo + self.bound), node, f"range upper bound may exceed the unrolling bound {self.lo + self.bound}")
        return out


def _merge_guarded(results):
    if not results:
        raise Unsupported("no feasible alternative")
    val = results[-1][1]
    for g, v in reversed(results[:-1]):
        val = merge_values(g, v, val)
    return val


def _b(t):
    if t is True:
        return TRUE
    if t is False:
        return FALSE
    return t


def _eq0(y):
    if _is_val(y):
        return TRUE if _z3_frac(y) == 0 else FALSE
    return y == 0


def _is_val(t):
    return z3.is_int_value(t) or z3.is_rational_value(t) or z3.is_true(t) or z3.is_false(t)


def _z3_frac(t):
    if z3.is_int_value(t):
        return Fraction(t.as_long())
    return Fraction(t.numerator_as_long(), t.denominator_as_long())


def _is_symbolic(v):
    if isinstance(v, (Num, Alt, GuardedSeq, SymRange)):
        return True
    if isinstance(v, (list, tuple)):
        return any(_is_symbolic(x) for x in v)
    if isinstance(v, dict):
        return any(_is_symbolic(x) for x in v.values())
    return False


def is_hashable_simple(k):
    return isinstance(k, (str, int, bool))


def _cmp_terms(op, ta, tya, tb, tyb):
    infa, infb = isinstance(ta, float), isinstance(tb, float)
    if infa or infb:
        if infa and infb:
            return z3.BoolVal(bool(_CMPS[op](ta, tb)))
        # exactly one infinite: every finite number is strictly between -inf and +inf
        if infa:
            r = _CMPS[op](ta, 0.0)
        else:
            r = _CMPS[op](0.0, tb)
        return z3.BoolVal(bool(r))
    if tya == "bool" and tyb == "bool" and op in (ast.Eq, ast.NotEq):
        return ta == tb if op is ast.Eq else ta != tb
    if tya in ("bool", "int") and tyb in ("bool", "int"):
        x, y = _as_int(ta, tya), _as_int(tb, tyb)
    else:
        x, y = _as_real(ta, tya), _as_real(tb, tyb)
    return _CMPS[op](x, y)


def _load_of(t):
    if isinstance(t, ast.Name):
        return ast.Name(id=t.id, ctx=ast.Load(), lineno=getattr(t, "lineno", 1), col_offset=0)
    raise Unsupported("augmented assignment to a non-name", t)


def _callable_key(fn):
    try:
        hash(fn)
    except TypeError:
        return id(fn)
    return fn


def default_inline_pred(fn):
    mod = getattr(fn, "__module__", "") or ""
    return mod.startswith("_gettsim") or mod.startswith("gettsim") or mod == "__verif_dyn__"


# ----------------------------------------------------------------------------------
# builtin / numpy handlers
# ----------------------------------------------------------------------------------
HANDLERS = {}


def handler(*fns):
    def deco(h):
        for f in fns:
            HANDLERS[_callable_key(f)] = h
        return h

    return deco


def _flatten_seq(ex, args, node, pc):
    """max(a, b, c) or max(iterable) -> list of (guard, item)"""
    if len(args) == 1:
        seq = args[0]
        if isinstance(seq, GuardedSeq):
            return seq.items
        return ex.iterate(seq, node, pc)
    return [(TRUE, a) for a in args]


def _extremum(ex, args, kwargs, pc, node, is_max):
    if kwargs:
        raise Unsupported("min/max with keyword arguments", node)
    items = _flatten_seq(ex, args, node, pc)
    if not items:
        ex.oblige("raise", pc, node, "min/max of an empty sequence")
        return ex.fresh("empty", "float")
    # first item must be unconditionally present for a well-defined start
    have = FALSE  # some item seen so far
    cur = None
    for g, v in items:
        if isinstance(v, Alt):
            raise Unsupported("min/max over object alternatives", node)
        if cur is None:
            cur, have = v, g
            continue
        better = ex.compare(ast.Gt if is_max else ast.Lt, v, cur, mk_and(pc, g, have), node)
        tb = _b(ex.truthy(better))
        take = mk_and(g, mk_or(mk_not(have), tb))
        cur = merge_values(take, v, cur)
        have = mk_or(have, g)
    if not is_true(have):
        ex.oblige("raise", mk_and(pc, mk_not(have)), node, "min/max of an empty sequence")
    return cur


@handler(builtins.max)
def _h_max(ex, args, kwargs, pc, node):
    return _extremum(ex, args, kwargs, pc, node, True)


@handler(builtins.min)
def _h_min(ex, args, kwargs, pc, node):
    return _extremum(ex, args, kwargs, pc, node, False)


@handler(builtins.sum)
def _h_sum(ex, args, kwargs, pc, node):
    items = _flatten_seq(ex, args[:1], node, pc)
    total = args[1] if len(args) > 1 else 0
    for g, v in items:
        nxt = ex.binop(ast.Add, total, v, mk_and(pc, g), node)
        total = merge_values(g, nxt, total)
    return total


@handler(builtins.any)
def _h_any(ex, args, kwargs, pc, node):
    items = _flatten_seq(ex, args, node, pc)
    out = FALSE
    for g, v in items:
        out = mk_or(out, mk_and(g, _b(ex.truthy(v))))
    return _boolval(out)


@handler(builtins.all)
def _h_all(ex, args, kwargs, pc, node):
    items = _flatten_seq(ex, args, node, pc)
    out = TRUE
    for g, v in items:
        out = mk_and(out, mk_or(mk_not(g), _b(ex.truthy(v))))
    return _boolval(out)


def _boolval(b):
    if is_true(b):
        return True
    if is_false(b):
        return False
    return Num([(TRUE, b, "bool")])


@handler(builtins.abs)
def _h_abs(ex, args, kwargs, pc, node):
    (x,) = args
    if is_conc_num(x):
        return lift(abs(x)) if not isinstance(x, Fl) else Fl(abs(x))
    neg = ex.binop(ast.Sub, 0, x, pc, node)
    c = _b(ex.truthy(ex.compare(ast.Lt, x, 0, pc, node)))
    return merge_values(c, neg, x)


@handler(builtins.float)
def _h_float(ex, args, kwargs, pc, node):
    (x,) = args
    if is_conc_num(x):
        return x if isinstance(x, float) else Fl(Fraction(x))
    if isinstance(x, str):
        return lift(float(x))
    n = to_num(x)
    return Num([(g, t if isinstance(t, float) else _as_real(t, ty), "float") for g, t, ty in n.alts])


@handler(builtins.int)
def _h_int(ex, args, kwargs, pc, node):
    (x,) = args
    if is_conc_num(x):
        if isinstance(x, float):
            raise Unsupported("int(inf)", node)
        return int(x) if not isinstance(x, Fl) else math.trunc(x)
    n = to_num(x)
    alts = []
    for g, t, ty in n.alts:
        if isinstance(t, float):
            ex.oblige("raise", mk_and(pc, g), node, "int(inf)")
            continue
        if ty in ("bool", "int"):
            alts.append((g, _as_int(t, ty), "int"))
        else:
            alts.append((g, z3.If(t >= 0, z3.ToInt(t), -z3.ToInt(-t)), "int"))
    return Num(alts)


@handler(builtins.bool)
def _h_bool(ex, args, kwargs, pc, node):
    (x,) = args
    t = ex.truthy(x)
    return t if isinstance(t, bool) else Num([(TRUE, t, "bool")])


@handler(builtins.round)
def _h_round(ex, args, kwargs, pc, node):
    x = args[0]
    nd = args[1] if len(args) > 1 else kwargs.get("ndigits")
    if is_conc_num(x) and (nd is None or isinstance(nd, int)):
        if isinstance(x, Fl):
            r = round(Fraction(x), nd) if nd is not None else round(Fraction(x))
            return Fl(r) if nd is not None else int(r)
        return round(x, nd) if nd is not None else round(x)
    if nd is not None and not isinstance(nd, int):
        raise Unsupported("round with symbolic ndigits", node)
    n = to_num(x)
    scale = Fraction(10) ** (nd or 0)
    alts = []
    for g, t, ty in n.alts:
        if isinstance(t, float):
            raise Unsupported("round(inf)", node)
        if ty in ("int", "bool"):
            if nd is None or nd >= 0:
                alts.append((g, _as_int(t, ty), "int"))
                continue
        r = _as_real(t, ty) * frac_to_z3real(scale)
        fl = z3.ToInt(r)
        frac = r - z3.ToReal(fl)
        half = z3.RealVal("1/2")
        even = fl % 2 == 0
        q = z3.If(frac < half, fl, z3.If(frac > half, fl + 1, z3.If(even, fl, fl + 1)))
        if nd is None:
            alts.append((g, q, "int"))
        else:
            alts.append((g, z3.ToReal(q) / frac_to_z3real(scale), "float" if ty == "float" else "int"))
    return Num(alts)


@handler(builtins.len)
def _h_len(ex, args, kwargs, pc, node):
    (x,) = args
    if isinstance(x, (Num, Alt, GuardedSeq)):
        raise Unsupported("len of a symbolic value", node)
    return len(x)


@handler(builtins.range)
def _h_range(ex, args, kwargs, pc, node):
    if all(isinstance(a, int) for a in args):
        return range(*args)
    if len(args) == 2 and isinstance(args[0], int) and isinstance(args[1], Num) and ex.range_bound:
        return SymRange(args[0], args[1], ex.range_bound)
    if len(args) == 1 and isinstance(args[0], Num) and ex.range_bound:
        return SymRange(0, args[0], ex.range_bound)
    raise Unsupported("range with symbolic bounds (no unrolling bound given)", node)


@handler(builtins.sorted)
def _h_sorted(ex, args, kwargs, pc, node):
    seq = args[0]
    if isinstance(seq, dict):
        ex.note_read(seq, "*")
    items = list(seq)
    if any(_is_symbolic(x) for x in items) or kwargs:
        raise Unsupported("sorted over symbolic items / with key", node)
    return sorted(items)


@handler(builtins.list)
def _h_list(ex, args, kwargs, pc, node):
    if not args:
        return []
    return [v for _, v in ex.iterate(args[0], node, pc, need_true=True)]


@handler(builtins.tuple)
def _h_tuple(ex, args, kwargs, pc, node):
    if not args:
        return ()
    return tuple(v for _, v in ex.iterate(args[0], node, pc, need_true=True))


@handler(builtins.dict)
def _h_dict(ex, args, kwargs, pc, node):
    if not args:
        return dict(kwargs)
    a = args[0]
    if isinstance(a, dict):
        return dict(a)
    return dict(list(x) for _, x in ex.iterate(a, node, pc, need_true=True))


@handler(builtins.zip)
def _h_zip(ex, args, kwargs, pc, node):
    seqs = [[v for _, v in ex.iterate(a, node, pc, need_true=True)] for a in args]
    return [tuple(t) for t in zip(*seqs)]


@handler(builtins.iter)
def _h_iter(ex, args, kwargs, pc, node):
    return iter([v for _, v in ex.iterate(args[0], node, pc, need_true=True)])


@handler(builtins.next)
def _h_next(ex, args, kwargs, pc, node):
    try:
        return next(args[0])
    except StopIteration:
        ex.oblige("raise", pc, node, "StopIteration")
        return ex.fresh("stop", "float")


@handler(builtins.enumerate)
def _h_enumerate(ex, args, kwargs, pc, node):
    return list(enumerate([v for _, v in ex.iterate(args[0], node, pc, need_true=True)]))


@handler(builtins.isinstance)
def _h_isinstance(ex, args, kwargs, pc, node):
    x, t = args
    if isinstance(x, Alt):
        return _merge_guarded([(g, _h_isinstance(ex, [v, t], {}, pc, node)) for g, v in x.alts])
    if isinstance(x, Num):
        ts = t if isinstance(t, tuple) else (t,)
        out = FALSE
        for g, _, ty in x.alts:
            py = {"bool": bool, "int": int, "float": float}[ty]
            if any(issubclass(py, tt) for tt in ts if isinstance(tt, type)):
                out = mk_or(out, g)
        return _boolval(out)
    if isinstance(x, Fl) or (isinstance(x, float)):
        ts = t if isinstance(t, tuple) else (t,)
        return any(issubclass(float, tt) for tt in ts if isinstance(tt, type))
    return isinstance(x, t)


@handler(builtins.type)
def _h_type(ex, args, kwargs, pc, node):
    (x,) = args
    if isinstance(x, Num):
        if x.single():
            return {"bool": bool, "int": int, "float": float}[x.alts[0][2]]
        return Alt([(g, {"bool": bool, "int": int, "float": float}[ty]) for g, _, ty in x.alts])
    if isinstance(x, Fl):
        return float
    return type(x)


def _np_round_like(ex, x, pc, node, mode):
    """numpy.ceil / floor on a scalar -> float"""
    if is_conc_num(x):
        if isinstance(x, float):
            return x
        fr = Fraction(x)
        return Fl(math.ceil(fr) if mode == "ceil" else math.floor(fr))
    n = to_num(x)
    alts = []
    for g, t, ty in n.alts:
        if isinstance(t, float):
            alts.append((g, t, "float"))
            continue
        r = _as_real(t, ty)
        fl = z3.ToInt(r)
        if mode == "floor":
            q = fl
        else:
            q = z3.If(z3.ToReal(fl) == r, fl, fl + 1)
        alts.append((g, z3.ToReal(q), "float"))
    return Num(alts)


@handler(numpy.ceil, math.ceil)
def _h_ceil(ex, args, kwargs, pc, node):
    return _np_round_like(ex, args[0], pc, node, "ceil")


@handler(numpy.floor, math.floor)
def _h_floor(ex, args, kwargs, pc, node):
    return _np_round_like(ex, args[0], pc, node, "floor")


@handler(numpy.trunc, math.trunc)
def _h_trunc(ex, args, kwargs, pc, node):
    x = args[0]
    if is_conc_num(x):
        return x if isinstance(x, float) else Fl(math.trunc(Fraction(x)))
    n = to_num(x)
    alts = []
    for g, t, ty in n.alts:
        if isinstance(t, float):
            alts.append((g, t, "float"))
            continue
        r = _as_real(t, ty)
        alts.append((g, z3.ToReal(z3.If(r >= 0, z3.ToInt(r), -z3.ToInt(-r))), "float"))
    return Num(alts)


@handler(numpy.rint, numpy.round, numpy.around)
def _h_rint(ex, args, kwargs, pc, node):
    if len(args) > 1 or kwargs:
        raise Unsupported("numpy.round with decimals", node)
    r = _h_round(ex, [args[0], 0], {}, pc, node)
    return _h_float(ex, [r], {}, pc, node)


@handler(numpy.abs, numpy.absolute, numpy.fabs)
def _h_npabs(ex, args, kwargs, pc, node):
    return _h_abs(ex, args, kwargs, pc, node)


@handler(numpy.maximum)
def _h_npmaximum(ex, args, kwargs, pc, node):
    a, b = args
    c = _b(ex.truthy(ex.compare(ast.GtE, a, b, pc, node)))
    return merge_values(c, a, b)


@handler(numpy.minimum)
def _h_npminimum(ex, args, kwargs, pc, node):
    a, b = args
    c = _b(ex.truthy(ex.compare(ast.LtE, a, b, pc, node)))
    return merge_values(c, a, b)


class CrossRowReduction(Unsupported):
    """numpy.sum/any/all/max/min applied to a sequence of per-row values reduces over ALL rows."""


def _np_reduction(pyfn):
    def h(ex, args, kwargs, pc, node):
        if len(args) != 1 or kwargs:
            raise Unsupported("numpy reduction with axis / several arguments", node)
        seq = args[0]
        items = seq.items if isinstance(seq, GuardedSeq) else ex.iterate(seq, node, pc)
        if any(_is_symbolic(v) for _, v in items):
            raise CrossRowReduction(f"numpy.{pyfn.__name__} over a sequence of row-dependent values reduces across rows", node)
        return HANDLERS[_callable_key(pyfn)](ex, args, kwargs, pc, node)

    return h


for _np, _py in ((numpy.sum, builtins.sum), (numpy.any, builtins.any), (numpy.all, builtins.all), (numpy.max, builtins.max), (numpy.min, builtins.min)):
    HANDLERS[_callable_key(_np)] = _np_reduction(_py)


@handler(numpy.where)
def _h_npwhere(ex, args, kwargs, pc, node):
    c, a, b = args
    t = ex.truthy(c)
    if isinstance(t, bool):
        return a if t else b
    return merge_values(t, a, b)


@handler(numpy.logical_and)
def _h_land(ex, args, kwargs, pc, node):
    a, b = args
    return _boolval(mk_and(_b(ex.truthy(a)), _b(ex.truthy(b))))


@handler(numpy.logical_or)
def _h_lor(ex, args, kwargs, pc, node):
    a, b = args
    return _boolval(mk_or(_b(ex.truthy(a)), _b(ex.truthy(b))))


@handler(numpy.logical_not)
def _h_lnot(ex, args, kwargs, pc, node):
    (a,) = args
    return _boolval(mk_not(_b(ex.truthy(a))))


@handler(numpy.searchsorted)
def _h_searchsorted(ex, args, kwargs, pc, node):
    """Trusted contract: searchsorted(t, x, side) for a sorted concrete t is the number of
    elements of t that are <= x (side='right') resp. < x (side='left')."""
    t = args[0]
    x = args[1]
    side = kwargs.get("side", args[2] if len(args) > 2 else "left")
    if isinstance(t, (Num, Alt)) or side not in ("left", "right"):
        raise Unsupported("searchsorted on symbolic thresholds", node)
    ts = [lift(v) for v in t]
    if any(not is_conc_num(v) for v in ts):
        raise Unsupported("searchsorted thresholds not numeric", node)
    if any(not (ts[i] <= ts[i + 1]) for i in range(len(ts) - 1)):
        ex.oblige("contract", pc, node, "searchsorted on unsorted thresholds")
    if is_conc_num(x):
        cnt = sum(1 for v in ts if (v <= x if side == "right" else v < x))
        return cnt
    op = ast.LtE if side == "right" else ast.Lt
    total = 0
    for v in ts:
        c = ex.compare(op, v, x, pc, node)
        inc = merge_values(_b(ex.truthy(c)), 1, 0)
        total = ex.binop(ast.Add, total, inc, pc, node)
    return total


@handler(numpy.array, numpy.asarray)
def _h_nparray(ex, args, kwargs, pc, node):
    a = args[0]
    if _is_symbolic(a):
        return list(a)
    return numpy.array(unlift(a), **kwargs)


@handler(numpy.isnan)
def _h_isnan(ex, args, kwargs, pc, node):
    return False


# ----------------------------------------------------------------------------------
# top level API
# ----------------------------------------------------------------------------------
PYTYPES = {float: "float", int: "int", bool: "bool", "float": "float", "int": "int", "bool": "bool"}


def annotation_type(func, name):
    f = inspect.unwrap(func)
    ann = f.__annotations__.get(name)
    if isinstance(ann, str):
        ann = {"float": float, "int": int, "bool": bool, "dict": dict}.get(ann, ann)
    return ann


def summarise(func, sym_args=None, conc_args=None, suffix="", range_bound=None, contracts=None, inline_pred=None, node_override=None, extra_globals=None):
    """Symbolically execute `func`.

    sym_args : names -> pytype string (default: from the annotations float/int/bool)
    conc_args: names -> concrete objects (parameter dicts, or fixed values)
    """
    node, filename, firstline, f = func_ast(func)
    if node_override is not None:
        node = node_override
    ex = Executor(range_bound=range_bound, contracts=contracts, inline_pred=inline_pred)
    conc_args = conc_args or {}
    args = {}
    names = [a.arg for a in node.args.args] + [a.arg for a in node.args.kwonlyargs]
    sym_vars = {}
    for n in names:
        if n in conc_args:
            v = conc_args[n]
            if isinstance(v, dict):
                ex.register_params(n, v)
            args[n] = lift(v)
            continue
        ty = (sym_args or {}).get(n)
        if ty is None:
            ann = annotation_type(func, n)
            ty = PYTYPES.get(ann)
        if ty is None:
            defaults = _defaults_of(node)
            if n in defaults:
                continue
            raise Unsupported(f"argument {n} of {node.name}: no scalar annotation ({annotation_type(func, n)!r})", node)
        v = Num.var(n + suffix, ty)
        sym_vars[n] = (v.alts[0][1], ty)
        args[n] = v
    fr = ex.call_function(f, args, TRUE, node_override=node_override, extra_globals=extra_globals)
    result = ex.result_of(fr)
    s = Summary(node.name, result, fr.returns, fr.raises, ex.obligations, ex.reads, sym_vars, f"{filename}:{firstline}")
    s.assumed_bounds = ex.assumed_bounds
    return s


def _defaults_of(node):
    a = node.args
    nd = len(a.defaults)
    out = {x.arg for x in a.args[len(a.args) - nd :]}
    out |= {x.arg for x, d in zip(a.kwonlyargs, a.kw_defaults) if d is not None}
    return out
