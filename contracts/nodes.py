"""Named intermediate contracts on computed columns (DESIGN.md 2.2): candidates that the
assume-guarantee pass (vt/facts.py) must PROVE from the rule's strongest postcondition and the
facts of its parents before they may be used downstream. Nothing here is assumed."""

EXTRA_CANDIDATES = {
    # needed by durchschn_entgeltp (divides by age_of_retirement - 16 years)
    "age_of_retirement": [("older than 16 at retirement", lambda r: r > 16)],
}
