"""C11 -- group and person-pointer aggregates equal their mathematical definition.

  P   sum_by_p_id: E2 verification conditions (unbounded N) against the ghost partial-sum contract:
      each source row is credited to exactly the person it points to, negative pointers ignored,
      the dict look-up never raises under the validity domain
  A   grouped_{count,sum,mean,max,min,any,all}: the real kernel is executed on ABSTRACT arrays
      (opaque values, concrete dtype) once per dtype class -- the kernels are straight-line per
      dtype class, so one abstract execution covers every input of the class -- with the library
      replaced by its contract npg.aggregate(idx, a, func) = "out[g] = func{a[j] : idx[j] = g}".
      Obligation: the returned term is Gather(Agg(group_id, <column | cast(column) | ones>, F),
      group_id) with F the aggregation the name promises, i.e. out[i] = F{col[j] : gid[j] = gid[i]},
      identical for every member; or TypeError exactly for the dtype classes outside the
      documented ones
  J   join_numpy: abstract execution of the real function (each mode of its two guards) records the
      guard terms and the returned term; z3 proves from the numpy contracts (argmax = first True
      column, pad, take) that a non-negative key yields the target of the unique matching row and a
      negative key the default -- for any number of rows
  N   the unimplemented *_by_p_id variants raise NotImplementedError (and C08 proves them unreachable)
  S   precedence automatic < built-in < user, automatic sum only without explicit spec and with an
      existing base column: exhaustive over the presence patterns on the real
      _create_aggregate_by_group_functions (built-in table replaced by a controlled one)
  T   _select_return_type against the GEP-4 table (finite, exhaustive)
  B   bounded: the real kernels incl. npg and join_numpy against a pure-Python definition for all
      small arrays (validates the trusted npg contract; join_numpy is bounded only)
"""
from __future__ import annotations

import inspect
import itertools
import json

import numpy

from vt import kernels, solve
from vt.report import ASSUMPTIONS, Report


# ---------------------------------------------------------------------------------------
# abstract arrays
# ---------------------------------------------------------------------------------------
class Abs:
    """opaque array term with a concrete dtype"""

    def __init__(self, term, dtype):
        self.term = term
        self.dtype = numpy.dtype(dtype)

    def astype(self, t):
        return Abs(("cast", self.term, numpy.dtype(t).name), t)

    def __getitem__(self, idx):
        if isinstance(idx, Abs):
            return Abs(("gather", self.term, idx.term), self.dtype)
        raise TypeError("abstract array indexed by a non-array")

    def __len__(self):
        return 7

    def __repr__(self):
        return f"Abs({self.term}:{self.dtype})"


class _NP:
    """numpy proxy: dtype predicates pass through, array constructors become abstract terms"""

    def __getattr__(self, k):
        return getattr(numpy, k)

    @staticmethod
    def ones(n, dtype=float):
        return Abs(("ones",), dtype)

    @staticmethod
    def zeros_like(a, dtype=None):
        return Abs(("zeros",), dtype or a.dtype)


class _NPG:
    @staticmethod
    def aggregate(group_idx, a, func="sum", fill_value=0, **kw):
        if kw:
            raise TypeError(f"unexpected keywords {kw}")
        if func in ("any", "all"):
            dt = bool
        elif func == "mean":
            dt = float
        else:
            dt = a.dtype
        return Abs(("agg", group_idx.term, a.term, func), dt)


DTYPES = {"bool": "bool", "int": "int64", "float": "float64", "datetime": "datetime64[ns]", "object": "object"}
# documented input classes per aggregation (docs/geps/gep-04.md; dates only for max / min)
ALLOWED = {
    "sum": {"bool", "int", "float"},
    "mean": {"float"},
    "max": {"int", "float", "datetime"},
    "min": {"int", "float", "datetime"},
    "any": {"bool", "int"},
    "all": {"bool", "int"},
}


def expected_term(kind, cls):
    col = ("col",)
    if kind == "count":
        return ("gather", ("agg", ("gid",), ("ones",), "sum"), ("gid",))
    v = col
    if kind == "sum" and cls == "bool":
        v = ("cast", col, "int64")
    if kind in ("max", "min") and cls == "datetime":
        v = ("cast", ("cast", col, "datetime64[D]"), "int64")
        agg = ("agg", ("gid",), v, kind)
        back = ("cast", ("cast", agg, "datetime64[D]"), "datetime64[ns]")
        return ("gather", back, ("gid",))
    return ("gather", ("agg", ("gid",), v, kind), ("gid",))


def abstract_group_kernels(rep):
    from _gettsim import aggregation_numpy as an

    where = "src/_gettsim/aggregation_numpy.py:5-110"
    saved = (an.numpy, an.npg)
    try:
        an.numpy, an.npg = _NP(), _NPG()
        for kind in ("count", "sum", "mean", "max", "min", "any", "all"):
            fn = getattr(an, f"grouped_{kind}")
            rep.functions.add(f"src/_gettsim/aggregation_numpy.py:{inspect.unwrap(fn).__code__.co_firstlineno} grouped_{kind}")
            for gcls in ("int", "float"):
                for cls in (["-"] if kind == "count" else list(DTYPES)):
                    gid = Abs(("gid",), DTYPES[gcls])
                    name = f"A grouped_{kind}[column:{cls}, group_id:{gcls}]"
                    try:
                        out = fn(gid) if kind == "count" else fn(Abs(("col",), DTYPES[cls]), gid)
                        raised = None
                    except TypeError as ex:
                        out, raised = None, "TypeError"
                    except Exception as ex:  # noqa: BLE001
                        out, raised = None, type(ex).__name__
                    must_raise = gcls != "int" or (kind != "count" and cls not in ALLOWED[kind])
                    if must_raise:
                        ok = raised == "TypeError"
                        detail = f"expected TypeError, got {raised or 'a result'}"
                    else:
                        want = expected_term(kind, cls)
                        ok = raised is None and isinstance(out, Abs) and out.term == want
                        detail = f"returned {out.term if isinstance(out, Abs) else raised}, contract {want}"
                    label = "bounded" if cls == "datetime" and not must_raise else "proof"
                    rep.ob(name, "discharged" if ok else "refuted", "abstract-exec", 0, where, "kernel-term", detail)
                    if not ok and must_raise:
                        rep.violation(f"grouped_{kind}:{cls}:{gcls}", f"grouped_{kind} on a {cls} column with {gcls} group ids: {detail}", {"obligation": name, "kind": kind, "cls": cls, "gcls": gcls, "replay": "bounded run B"}, failing_input_found=True)
                    elif not ok:
                        # the kernel no longer has the contracted form; whether it still computes the aggregate
                        # is decided by the exhaustive run B of the real kernel on small arrays (see run())
                        rep.__dict__.setdefault("_pending_terms", []).append((name, f"grouped_{kind}", f"grouped_{kind}:{cls}:{gcls}", f"grouped_{kind} on a {cls} column with {gcls} group ids: {detail}", {"obligation": name, "kind": kind, "cls": cls, "gcls": gcls, "replay": "bounded run B"}))
    finally:
        an.numpy, an.npg = saved


def datetime_lemmas(rep):
    """DT: the datetime branch of grouped_max / grouped_min has the term
         gather(cast(cast(agg(gid, cast(cast(col, 'datetime64[D]'), int64), max|min), 'datetime64[D]'), dtype), gid)
    (obligation A above, abstract execution of the real kernel). It equals gather(agg(gid, col, max|min), gid) when the
    column holds WHOLE DAYS (VALID for date columns, no NaT): with r = ticks per day of the column's unit, t = r*d,
      DT1 the cast to days is exact on whole days:  (r*d) div r = d   and back  d*r = t
      DT2 it is strictly monotone:                  d1 <= d2  <=>  r*d1 <= r*d2
      DT3 hence max and min commute with it:        r*max(d1,d2) = max(r*d1, r*d2), same for min
    for every numpy time unit from days to nanoseconds (numpy cast contract: astype('datetime64[D]') is the floor
    division of the tick count by r, astype(int) the tick count itself)."""
    import z3

    d1, d2 = z3.Ints("d1 d2")
    mx = lambda a, b: z3.If(a >= b, a, b)  # noqa: E731
    mn = lambda a, b: z3.If(a <= b, a, b)  # noqa: E731
    for unit, r in (("D", 1), ("h", 24), ("m", 1440), ("s", 86400), ("ms", 86400 * 10**3), ("us", 86400 * 10**6), ("ns", 86400 * 10**9)):
        rr = z3.IntVal(r)
        for nm, neg in (
            (f"DT1 datetime64[{unit}] -> [D] -> int -> [D] -> [{unit}] is the identity on whole days", z3.Or((rr * d1) / rr != d1, ((rr * d1) / rr) * rr != rr * d1)),
            (f"DT2 the day count is strictly monotone in the datetime64[{unit}] value", (d1 <= d2) != (rr * d1 <= rr * d2)),
            (f"DT3 max / min over day counts, converted back, is max / min over the datetime64[{unit}] values", z3.Or(rr * mx(d1, d2) != mx(rr * d1, rr * d2), rr * mn(d1, d2) != mn(rr * d1, rr * d2))),
        ):
            r_ = solve.check([neg], 10)
            rep.ob(nm, {"unsat": "discharged", "sat": "refuted"}.get(r_.status, "unknown"), r_.backend, r_.seconds, "src/_gettsim/aggregation_numpy.py grouped_max / grouped_min", "lemma", r_.reason)


def not_implemented(rep):
    from _gettsim import aggregation_numpy as an

    for kind in ("count", "mean", "max", "min", "any", "all"):
        fn = getattr(an, f"{kind}_by_p_id")
        ids = numpy.array([0, 1])
        col = numpy.array([0.5, 1.5]) if kind in ("mean", "max", "min") else numpy.array([True, False])
        try:
            fn(ids, ids) if kind == "count" else fn(col, ids, ids)
            ok = False
        except NotImplementedError:
            ok = True
        except Exception:  # noqa: BLE001
            ok = False
        rep.ob(f"N {kind}_by_p_id raises NotImplementedError", "discharged" if ok else "refuted", "run", 0, "src/_gettsim/aggregation_numpy.py:113-170", "exception-post")
        if not ok:
            rep.violation(f"{kind}_by_p_id", f"{kind}_by_p_id does not raise NotImplementedError", {"obligation": f"N {kind}_by_p_id"}, True)


# ---------------------------------------------------------------------------------------

def dispatch_contract(rep):
    """D: the function built from a specification calls THE kernel of the requested kind with
    (source column, group id) resp. (column, pointer, p_id) bound to the names of the specification --
    every kind x every grouping level / pointer, on the real factory functions with recording stubs
    in place of the kernels (the kernels themselves are verified separately)."""
    from _gettsim import functions_loader as fl
    from _gettsim.config import SUPPORTED_GROUPINGS

    where = "src/_gettsim/functions_loader.py:527-774"
    kinds = ("count", "sum", "mean", "max", "min", "any", "all")
    calls = []
    saved = {}

    def stub(nm):
        def f(*a, **kw):
            calls.append((nm, a, kw))
            return ("result-of", nm)

        return f

    names = [f"grouped_{k}" for k in kinds] + [f"{k}_by_p_id" for k in kinds]
    try:
        for nm in names:
            if hasattr(fl, nm):
                saved[nm] = getattr(fl, nm)
                setattr(fl, nm, stub(nm))
        for k in kinds:
            for g in SUPPORTED_GROUPINGS:
                # the source may itself be a group-level column of a finer unit (wohngeld_vorrang_bg -> _wthh)
                src_name = "verif_src_bg" if g in ("wthh", "hh") else "verif_src"
                spec = {"aggr": k} if k == "count" else {"aggr": k, "source_col": src_name}
                del calls[:]
                try:
                    f = fl._create_one_aggregate_by_group_func(f"verif_col_{g}", spec, {})
                    args = list(inspect.signature(f).parameters)
                    kw = {a: ("value-of", a) for a in args}
                    out = f(**kw)
                    want_args = (("value-of", f"{g}_id"),) if k == "count" else (("value-of", src_name), ("value-of", f"{g}_id"))
                    ok = len(calls) == 1 and calls[0][0] == f"grouped_{k}" and tuple(calls[0][1]) + tuple(calls[0][2].values()) == want_args and out == ("result-of", f"grouped_{k}")
                    detail = f"arguments {args}; calls {[(c[0], c[1]) for c in calls]}"
                except TypeError as ex:  # the factory's own signature changed: the contract no longer binds
                    rep.ob(f"D {k} over {g}: contract binds to _create_one_aggregate_by_group_func", "unsupported", "exhaustive-run", 0, where, "binding", repr(ex))
                    continue
                except Exception as ex:  # noqa: BLE001
                    ok, detail = False, repr(ex)
                rep.ob(f"D {k} over {g}: the created function returns grouped_{k}(source, {g}_id)", "discharged" if ok else "refuted", "exhaustive-run", 0, where, "dispatch", detail if not ok else "")
                if not ok:
                    rep.violation(f"dispatch:group:{k}", f"aggregation spec {spec} for verif_col_{g}: {detail}; the definition is grouped_{k}", {"obligation": "D", "spec": spec, "detail": detail}, True)
            spec = {"aggr": k, "p_id_to_aggregate_by": "verif_ptr"} if k == "count" else {"aggr": k, "source_col": "verif_src", "p_id_to_aggregate_by": "verif_ptr"}
            del calls[:]
            try:
                f = fl._create_one_aggregate_by_p_id_func(spec, {})
                args = list(inspect.signature(f).parameters)
                out = f(**{a: ("value-of", a) for a in args})
                want_args = (("value-of", "verif_ptr"), ("value-of", "p_id")) if k == "count" else (("value-of", "verif_src"), ("value-of", "verif_ptr"), ("value-of", "p_id"))
                ok = len(calls) == 1 and calls[0][0] == f"{k}_by_p_id" and tuple(calls[0][1]) + tuple(calls[0][2].values()) == want_args and out == ("result-of", f"{k}_by_p_id")
                detail = f"arguments {args}; calls {[(c[0], c[1]) for c in calls]}"
            except TypeError as ex:
                rep.ob(f"D {k} by p_id: contract binds to _create_one_aggregate_by_p_id_func", "unsupported", "exhaustive-run", 0, where, "binding", repr(ex))
                continue
            except Exception as ex:  # noqa: BLE001
                ok, detail = False, repr(ex)
            rep.ob(f"D {k} by p_id: the created function returns {k}_by_p_id(column, pointer, p_id)", "discharged" if ok else "refuted", "exhaustive-run", 0, where, "dispatch", detail if not ok else "")
            if not ok:
                rep.violation(f"dispatch:p_id:{k}", f"by-p_id aggregation spec {spec}: {detail}; the definition is {k}_by_p_id", {"obligation": "D", "spec": spec, "detail": detail}, True)
    finally:
        for nm, f in saved.items():
            setattr(fl, nm, f)
    rep.functions |= {"src/_gettsim/functions_loader.py:527 _create_one_aggregate_by_group_func", "src/_gettsim/functions_loader.py:670 _create_one_aggregate_by_p_id_func"}


def annotation_table(rep):
    """T2 (shared with C05: a supplied aggregate column is converted by this annotation)"""
    from _gettsim import functions_loader as fl

    # T2: contract of _annotations_for_aggregation -- whichever kind of source (a function with a return
    # annotation, a documented input variable), the declared types follow the table
    from _gettsim.config import TYPES_INPUT_VARIABLES

    table = lambda aggr, ty: bool if (ty is int and aggr in ("any", "all")) else int if (ty is bool and aggr == "sum") else ty  # noqa: E731
    for aggr in ("sum", "mean", "max", "min", "any", "all"):
        for ty in (float, int, bool):
            def src() -> None:
                return None

            src.__annotations__ = {"return": ty}
            inp = next(n for n, t in TYPES_INPUT_VARIABLES.items() if t is ty and not n.endswith("_id") and not n.startswith("p_id"))
            for kind_, spec, funcs, col in (("function", {"aggr": aggr, "source_col": "verif_src"}, {"verif_src": src}, "verif_src"), ("input variable", {"aggr": aggr, "source_col": inp}, {}, inp)):
                a = fl._annotations_for_aggregation(spec, funcs)
                ok = a.get("return") is table(aggr, ty) and a.get(col) is ty
                rep.ob(f"T2 annotations of {aggr} over a {ty.__name__} {kind_}: source {ty.__name__}, result {table(aggr, ty).__name__}", "discharged" if ok else "refuted", "exhaustive-run", 0, "src/_gettsim/functions_loader.py:482", "type-table", str(a))
                if not ok:
                    rep.violation(f"annotations:{aggr}:{ty.__name__}:{kind_}", f"_annotations_for_aggregation({spec}) with a {ty.__name__} {kind_} as source gives {a}; the result type must be {table(aggr, ty).__name__} (a supplied aggregate column is converted by this annotation)", {"obligation": "T2", "spec": spec, "got": str(a)}, True)


def precedence(rep):
    from _gettsim import functions_loader as fl
    from vt import facts

    where = "src/_gettsim/functions_loader.py:370-430"
    rep.functions.add("src/_gettsim/functions_loader.py:370 _create_aggregate_by_group_functions")

    def base(x: float) -> float:
        return x

    def consumer(base_hh: float) -> float:
        return base_hh

    def explicit_base_hh(x: float) -> float:
        return x

    saved = fl.load_aggregation_dict
    n = 0
    try:
        for has_builtin, has_user, has_base, requested_as, explicit_fn in itertools.product([False, True], [False, True], [False, "function", "data"], ["target", "argument", "none"], [False, True]):
            builtin = {"base_hh": {"source_col": "base", "aggr": "max"}} if has_builtin else {}
            user = {"base_hh": {"source_col": "base", "aggr": "min"}} if has_user else {}
            fl.load_aggregation_dict = lambda typ, b=builtin: dict(b) if typ == "aggregate_by_group" else {}
            funcs = {}
            if has_base == "function":
                funcs["base"] = base
            if requested_as == "argument":
                funcs["consumer"] = consumer
            if explicit_fn:
                funcs["base_hh"] = explicit_base_hh
            targets = ["base_hh"] if requested_as == "target" else []
            n += 1
            try:
                out = fl._create_aggregate_by_group_functions(funcs, targets, ["x", "hh_id"] + (["base"] if has_base == "data" else []), user)
                got = facts.agg_kind(out["base_hh"])[0] if "base_hh" in out else None
                err = None
            except Exception as ex:  # noqa: BLE001
                got, err = None, type(ex).__name__
            if has_user:
                want = "min"
            elif has_builtin:
                want = "max"
            elif requested_as != "none" and has_base and not explicit_fn:
                want = "sum"
            else:
                want = None
            name = f"S builtin={has_builtin} user={has_user} base_exists={has_base} requested={requested_as} explicit_function={explicit_fn} -> {want}"
            ok = err is None and got == want
            rep.ob(name, "discharged" if ok else "refuted", "exhaustive-run", 0, where, "precedence", f"got {got or err}")
            if not ok:
                rep.violation(f"precedence:{has_builtin}:{has_user}:{has_base}:{requested_as}:{explicit_fn}", f"aggregation spec precedence: {name}, got {got or err}", {"obligation": name, "got": got or err}, True)
    finally:
        fl.load_aggregation_dict = saved
    # ... and through the real load_and_check_functions: a user specification wins over a FUNCTION of the
    # same name as well (shipped or user-supplied), whatever else is present
    import warnings as _w

    for explicit_fn, requested_as in itertools.product([False, True], ["target", "argument"]):
        funcs = {"base": base}
        if explicit_fn:
            funcs["base_hh"] = explicit_base_hh
        if requested_as == "argument":
            funcs["consumer"] = consumer
        user = {"base_hh": {"source_col": "base", "aggr": "min"}}
        name = f"S2 user spec for base_hh, function of the same name present={explicit_fn}, requested as {requested_as}: the name is bound to the user's aggregate"
        try:
            with _w.catch_warnings():
                _w.simplefilter("ignore")
                fno_, _fo = fl.load_and_check_functions(functions_raw=[funcs], targets=["base_hh"] if requested_as == "target" else ["consumer"], data_cols=["x", "hh_id", "p_id"], aggregate_by_group_specs=user, aggregate_by_p_id_specs={})
            try:
                got = facts.agg_kind(fno_["base_hh"])[0]
            except Exception:  # noqa: BLE001
                got = f"not an aggregate ({getattr(inspect.unwrap(fno_['base_hh']), '__name__', '?')})"
        except TypeError as ex:
            rep.ob(name, "unsupported", "exhaustive-run", 0, "src/_gettsim/functions_loader.py:41 load_and_check_functions", "binding", repr(ex))
            continue
        except Exception as ex:  # noqa: BLE001
            got = repr(ex)[:100]
        ok = got == "min"
        rep.ob(name, "discharged" if ok else "refuted", "exhaustive-run", 0, "src/_gettsim/functions_loader.py:41 load_and_check_functions", "precedence", f"got {got}")
        if not ok:
            rep.violation(f"precedence2:{explicit_fn}:{requested_as}", f"{name}: got {got}", {"obligation": name, "got": got}, True)
    # S3: an explicit group-level RULE x_m_hh (not a sum) next to an individual-level x_m: requested in another
    # time unit, x_y_hh is the conversion of the explicit rule, not an automatic sum of x_y
    def verif_x_m(x: float) -> float:
        return x

    def verif_x_m_hh(x: float) -> float:
        return 2.0 * x

    name = "S3 explicit rule verif_x_m_hh next to verif_x_m: verif_x_y_hh is the time conversion of the explicit rule"
    try:
        with _w.catch_warnings():
            _w.simplefilter("ignore")
            fno_, _fo = fl.load_and_check_functions(functions_raw=[{"verif_x_m": verif_x_m, "verif_x_m_hh": verif_x_m_hh}], targets=["verif_x_y_hh"], data_cols=["x", "hh_id", "p_id"], aggregate_by_group_specs={}, aggregate_by_p_id_specs={})
        g_ = fno_.get("verif_x_y_hh")
        got = list(inspect.signature(g_).parameters) if g_ is not None else None
        ok = got == ["verif_x_m_hh"]
        rep.ob(name, "discharged" if ok else "refuted", "exhaustive-run", 0, "src/_gettsim/functions_loader.py:41 load_and_check_functions", "precedence", f"verif_x_y_hh reads {got}")
        if not ok:
            rep.violation("precedence3:explicit-rule-other-unit", f"{name}: it reads {got} (an automatic sum of the yearly individual-level column replaces the explicit rule)", {"obligation": name, "got": got}, True)
    except TypeError as ex:
        rep.ob(name, "unsupported", "exhaustive-run", 0, "src/_gettsim/functions_loader.py:41 load_and_check_functions", "binding", repr(ex))
    except Exception as ex:  # noqa: BLE001
        rep.ob(name, "refuted", "exhaustive-run", 0, "src/_gettsim/functions_loader.py:41 load_and_check_functions", "precedence", repr(ex)[:200])
        rep.violation("precedence3:explicit-rule-other-unit", f"{name}: {ex!r}"[:300], {"obligation": name}, True)
    # by-p_id specs: user spec wins for that call and does not leak into later calls
    try:
        builtin = fl.load_aggregation_dict(typ="aggregate_by_p_id")
        name0 = sorted(builtin)[0]
        spec0 = builtin[name0]

        def src_a(x: float) -> float:
            return x

        def src_b(x: float) -> float:
            return x

        funcs = {spec0["source_col"]: src_a, "verif_other_source": src_b}
        user = {name0: {"p_id_to_aggregate_by": spec0["p_id_to_aggregate_by"], "source_col": "verif_other_source", "aggr": "sum"}}
        before = list(inspect.signature(fl._create_aggregate_by_p_id_functions(funcs, {}, [])[name0]).parameters)
        with_user = list(inspect.signature(fl._create_aggregate_by_p_id_functions(funcs, user, [])[name0]).parameters)
        after = list(inspect.signature(fl._create_aggregate_by_p_id_functions(funcs, {}, [])[name0]).parameters)
        ok1 = "verif_other_source" in with_user and spec0["source_col"] in before
        ok2 = after == before
        rep.ob(f"S by-p_id: a user spec for {name0} takes precedence in that call", "discharged" if ok1 else "refuted", "exhaustive-run", 0, "src/_gettsim/functions_loader.py:636-667", "precedence", f"{before} / {with_user}")
        rep.ob(f"S by-p_id: the built-in spec of {name0} is unchanged in the next call without user specs", "discharged" if ok2 else "refuted", "exhaustive-run", 0, "src/_gettsim/functions_loader.py:636-667", "precedence", f"before {before} after {after}")
        if not ok1:
            rep.violation("precedence:by_p_id:user", f"user by-p_id spec for {name0} ignored: {with_user}", {"obligation": "S by-p_id user precedence"}, True)
        if not ok2:
            rep.violation("precedence:by_p_id:leak", f"after a call with a user by-p_id spec for {name0}, the built-in aggregate reads {after} instead of {before}", {"obligation": "S by-p_id no leak", "sequence": ["call without user specs", "call with user spec", "call without user specs"]}, True)
    except Exception as ex:  # noqa: BLE001
        rep.ob("S by-p_id precedence", "unsupported", "exhaustive-run", 0, "src/_gettsim/functions_loader.py:636-667", "precedence", repr(ex))
    # result type table (GEP-4)
    for aggr in ("sum", "mean", "max", "min", "any", "all"):
        for ty in (float, int, bool):
            want = bool if (ty is int and aggr in ("any", "all")) else int if (ty is bool and aggr == "sum") else ty
            got = fl._select_return_type(aggr, ty)
            rep.ob(f"T result type of {aggr} over {ty.__name__} is {want.__name__}", "discharged" if got is want else "refuted", "exhaustive-run", 0, "src/_gettsim/functions_loader.py:515", "type-table")
            if got is not want:
                rep.violation(f"return-type:{aggr}:{ty.__name__}", f"_select_return_type({aggr},{ty.__name__}) = {got}, GEP-4 says {want.__name__}", {"obligation": "T"}, True)
    annotation_table(rep)
    ann = fl._annotations_for_aggregation({"aggr": "count"}, {})
    rep.ob("T result type of count is int", "discharged" if ann.get("return") is int else "refuted", "exhaustive-run", 0, "src/_gettsim/functions_loader.py:482", "type-table")


# ---------------------------------------------------------------------------------------
def _py_group(kind, col, gid):
    out = []
    for i in range(len(gid)):
        mem = [col[j] for j in range(len(gid)) if gid[j] == gid[i]] if col is not None else [1 for j in range(len(gid)) if gid[j] == gid[i]]
        out.append({"count": len, "sum": sum, "mean": lambda m: sum(m) / len(m), "max": max, "min": min, "any": any, "all": all}[kind](mem))
    return out


def bounded(rep, tier):
    from _gettsim import aggregation_numpy as an
    from _gettsim.shared import join_numpy

    nmax = 4 if tier == "quick" else 5
    n_eval = 0
    distinct = 0
    bad = []
    gid_dom = [0, 4, 9]  # sparse, unsorted in use
    for n in range(1, nmax + 1):
        for gid in itertools.product(gid_dom, repeat=n):
            g = numpy.array(gid)
            distinct += 1
            for kind, dom, dt in (("sum", [0.0, 1.5, -2.0], float), ("mean", [0.0, 1.5, -2.0], float), ("max", [0.0, 1.5, -2.0], float), ("min", [3, 1, -2], int), ("sum", [False, True], bool), ("any", [False, True], bool), ("all", [False, True], bool), ("sum", [0, 2, -1], int), ("any", [0, 2, -1], int), ("all", [3, 0, -1], int), ("sum", [0.5, 1.25, -2.75], numpy.float32), ("max", [0.5, 1.25, -2.75], numpy.float32)):
                for col in itertools.product(dom, repeat=n):
                    if n == nmax and kind in ("mean", "max", "min") and col[0] != dom[0]:
                        continue  # thin out the largest size
                    c = numpy.array(col, dtype=dt)
                    got = getattr(an, f"grouped_{kind}")(c, g)
                    exp = _py_group(kind, list(col), list(gid))
                    n_eval += 1
                    if not numpy.allclose(numpy.asarray(got, dtype=float), numpy.asarray(exp, dtype=float)):
                        if len(bad) < 5:
                            bad.append({"kernel": f"grouped_{kind}", "column": list(col), "group_id": list(gid), "got": numpy.asarray(got).tolist(), "expected": exp})
            got = an.grouped_count(g)
            n_eval += 1
            if list(numpy.asarray(got, dtype=float)) != [float(v) for v in _py_group("count", None, list(gid))] and len(bad) < 5:
                bad.append({"kernel": "grouped_count", "group_id": list(gid), "got": numpy.asarray(got).tolist()})
    # datetime max / min (bounded only): dates on both sides of the epoch
    for dates in (["2001-03-04", "1999-12-31", "2010-01-01", "1999-12-31"], ["1955-03-04", "1949-12-31", "2010-01-01", "1949-12-31"], ["1931-05-06", "1969-12-31", "1926-01-01", "1944-07-09"]):
        d = numpy.array(dates, dtype="datetime64[ns]")
        for g in itertools.product([0, 4], repeat=4):
            for kind in ("max", "min"):
                got = getattr(an, f"grouped_{kind}")(d, numpy.array(g))
                exp = _py_group(kind, list(d), list(g))
                n_eval += 1
                if list(got) != exp and len(bad) < 5:
                    bad.append({"kernel": f"grouped_{kind}[datetime]", "column": dates, "group_id": list(g), "got": [str(x) for x in got], "expected": [str(x) for x in exp]})
    # large, sparse group ids in unsorted row orders (survey-style identifiers)
    big = [1000003, 7, 1000001]
    colf = numpy.array([1.5, -2.0, 0.25, 3.0, 8.0])
    for n in (3, 4):
        for gid in itertools.product(big, repeat=n):
            if len(set(gid)) < 2:
                continue
            g = numpy.array(gid)
            distinct += 1
            for kind in ("sum", "max", "min", "mean"):
                got = getattr(an, f"grouped_{kind}")(colf[:n], g)
                exp = _py_group(kind, colf[:n].tolist(), list(gid))
                n_eval += 1
                if not numpy.allclose(numpy.asarray(got, dtype=float), numpy.asarray(exp, dtype=float)) and len(bad) < 5:
                    bad.append({"kernel": f"grouped_{kind}", "column": colf[:n].tolist(), "group_id": list(gid), "got": numpy.asarray(got).tolist(), "expected": exp})
            got = an.grouped_count(g)
            n_eval += 1
            if list(numpy.asarray(got, dtype=float)) != [float(v) for v in _py_group("count", None, list(gid))] and len(bad) < 5:
                bad.append({"kernel": "grouped_count", "group_id": list(gid), "got": numpy.asarray(got).tolist()})
    # sum_by_p_id and join_numpy against dict-based definitions, all pointer patterns
    ids = [7, 3, 12, 0, 5]
    for n in range(1, nmax + 1):
        store = numpy.array(ids[:n])
        for ptr in itertools.product([-1, -5, *ids[:n]], repeat=n):
            p = numpy.array(ptr)
            col = numpy.array([1.5, 2.0, -4.0, 8.25, 0.5][:n])
            got = an.sum_by_p_id(col, p, store)
            exp = [sum(col[k] for k in range(n) if p[k] >= 0 and p[k] == store[pos]) for pos in range(n)]
            n_eval += 1
            distinct += 1
            if not numpy.allclose(got, exp) and len(bad) < 5:
                bad.append({"kernel": "sum_by_p_id", "column": col.tolist(), "p_id_to_aggregate_by": list(ptr), "p_id_to_store_by": store.tolist(), "got": got.tolist(), "expected": exp})
            for perm in itertools.permutations(range(n)) if n <= 3 else [tuple(range(n)), tuple(reversed(range(n)))]:
                pk = store[list(perm)]
                tg = col[list(perm)]
                gotj = join_numpy(p, pk, tg, value_if_foreign_key_is_missing=-99.0)
                lut = {int(k): float(v) for k, v in zip(pk, tg)}
                expj = [lut[int(q)] if q >= 0 else -99.0 for q in p]
                n_eval += 1
                if not numpy.allclose(gotj, expj) and len(bad) < 5:
                    bad.append({"kernel": "join_numpy", "foreign_key": list(ptr), "primary_key": pk.tolist(), "target": tg.tolist(), "got": numpy.asarray(gotj).tolist(), "expected": expj})
    # isolation ("over exactly the members of the group" / "credited to exactly the person pointed to"): a NaN,
    # an infinity or a huge value in ONE row never changes the result of rows of other groups / of
    # persons the row does not point to -- bit for bit
    base = [1.5, -2.0, 0.25, 3.0]
    with numpy.errstate(all="ignore"):
        for n in (3, 4):
            for gid in itertools.product(gid_dom, repeat=n):
                g = numpy.array(gid)
                for kind in ("sum", "mean", "max", "min"):
                    ref = numpy.asarray(getattr(an, f"grouped_{kind}")(numpy.array(base[:n]), g), dtype=float)
                    for pos in range(n):
                        for poison in (float("nan"), float("inf"), 1e300):
                            c2 = numpy.array(base[:n])
                            c2[pos] = poison
                            got = numpy.asarray(getattr(an, f"grouped_{kind}")(c2, g), dtype=float)
                            n_eval += 1
                            others = [i for i in range(n) if gid[i] != gid[pos]]
                            if any(got[i] != ref[i] for i in others) and len(bad) < 5:
                                bad.append({"kernel": f"grouped_{kind}", "column": [repr(v) for v in c2.tolist()], "group_id": list(gid), "got": [repr(v) for v in got.tolist()], "expected": f"rows of the other groups {others} as without the value: {[repr(v) for v in ref.tolist()]}"})
            store = numpy.array(ids[:n])
            for ptr in itertools.product([-1, *ids[:n]], repeat=n):
                p_ = numpy.array(ptr)
                ref = an.sum_by_p_id(numpy.array(base[:n]), p_, store)
                for pos in range(n):
                    for poison in (float("nan"), float("inf"), 1e300):
                        c2 = numpy.array(base[:n])
                        c2[pos] = poison
                        got = an.sum_by_p_id(c2, p_, store)
                        n_eval += 1
                        others = [k for k in range(n) if store[k] != ptr[pos]]
                        if any(got[k] != ref[k] for k in others) and len(bad) < 5:
                            bad.append({"kernel": "sum_by_p_id", "column": [repr(v) for v in c2.tolist()], "p_id_to_aggregate_by": list(ptr), "p_id_to_store_by": store.tolist(), "got": [repr(v) for v in got.tolist()], "expected": f"persons {others} (not pointed to by row {pos}) as without the value: {[repr(v) for v in ref.tolist()]}"})
    # join_numpy exceptional post: duplicates in the primary key / dangling non-negative keys
    for fk, pk, should in (([1], [1, 1], True), ([2], [1, 3], True), ([-1], [1, 3], False), ([3, 1], [1, 3], False)):
        try:
            join_numpy(numpy.array(fk), numpy.array(pk), numpy.array([0.5] * len(pk)), value_if_foreign_key_is_missing=0.0)
            raised = False
        except ValueError:
            raised = True
        n_eval += 1
        if raised != should and len(bad) < 5:
            bad.append({"kernel": "join_numpy", "foreign_key": fk, "primary_key": pk, "got": "raised" if raised else "returned", "expected": "ValueError" if should else "a result"})
    rep.bounded["kernels_vs_definition"] = {"evaluations": n_eval, "distinct_nontrivial": distinct, "rule": f"all group-id vectors over {{0,4,9}} and all columns over 3-value domains for <= {nmax} rows (sparse, unsorted ids) for the seven grouped kernels; datetime max/min on 16 groupings x 3 date sets (both sides of 1970); large sparse ids (1000003, 7, 1000001) in all row orders up to 4 rows; sum_by_p_id and join_numpy for all pointer vectors over (-1,-5,existing ids) x row orders; isolation of other groups / persons from a NaN, inf or 1e300 in one row (bit for bit); distinct = id/pointer vectors", "failures": bad[:5], "exhaustive": True}
    rep.functions.add("src/_gettsim/shared.py:272 join_numpy (also bounded exhaustive)")
    for b in bad:
        rep.violation(f"{b['kernel']}:definition-mismatch", f"{b['kernel']} returns {b.get('got')} on {{k: v for k, v in b.items() if k not in ('got', 'expected')}}, definition gives {b.get('expected')}".replace("{k: v for k, v in b.items() if k not in ('got', 'expected')}", str({k: v for k, v in b.items() if k not in ("got", "expected", "kernel")})), b, True)
    return {b["kernel"].split("[")[0] for b in bad}


def join_proof(rep):
    """J: join_numpy by abstract execution + z3 over the numpy contracts (unbounded N)"""
    import z3

    from _gettsim import shared
    from vt import absnp

    where = "src/_gettsim/shared.py:272-328 (join_numpy)"
    rep.functions.add("src/_gettsim/shared.py:272 join_numpy")
    T = absnp.T
    fk, pk, tg = T("fk"), T("pk"), T("target")
    saved = shared.numpy
    results = {}
    try:
        shared.numpy = absnp.NP()
        for mode_name, mode in {
            "ok": {},
            "duplicate primary keys": {(lambda t: t.op == "unique"): 6},
            "dangling foreign key": {(lambda t: t.op == "mask_select"): 1},
        }.items():
            absnp.LEN.mode = mode
            absnp.LEN.asked = []
            try:
                out = shared.join_numpy(fk, pk, tg, "DEFAULT")
                results[mode_name] = ("returned", out, list(absnp.LEN.asked))
            except ValueError:
                results[mode_name] = ("ValueError", None, list(absnp.LEN.asked))
            except Exception as ex:  # noqa: BLE001
                results[mode_name] = (type(ex).__name__, None, list(absnp.LEN.asked))
    finally:
        shared.numpy = saved
        absnp.LEN.mode = {}
    # J1: the path conditions are the documented ones
    asked = [t.key() for t in results["ok"][2]]
    want_mask = ("mask_select", ("fk",), ("and", ("ge", ("fk",), 0), ("not", ("isin", ("fk",), ("pk",)))))
    j1 = results["ok"][0] == "returned" and ("unique", ("pk",)) in asked and want_mask in asked
    rep.ob("J1 join_numpy decides on len(unique(pk)) vs len(pk) and on len(fk[(fk >= 0) & ~isin(fk, pk)])", "discharged" if j1 else "refuted", "abstract-exec", 0, where, "kernel-term", str(asked)[:200])
    j2 = results["duplicate primary keys"][0] == "ValueError" and results["dangling foreign key"][0] == "ValueError"
    rep.ob("J2 join_numpy raises ValueError when the primary key has duplicates / a non-negative foreign key is not a primary key", "discharged" if j2 else "refuted", "abstract-exec", 0, where, "exception-post", str({k: v[0] for k, v in results.items()}))
    # J3: the returned term
    want = ("take", ("pad", ("target",), (0, 1), "constant", "DEFAULT"), ("argmax", ("pad", ("eq", ("column", ("fk",)), ("pk",)), ((0, 0), (0, 1)), "constant", True), 1))
    got = results["ok"][1].key() if results["ok"][1] is not None else None
    j3 = got == want
    rep.ob("J3 join_numpy returns take(pad(target, default), argmax(pad(fk[:, None] == pk, True), axis=1))", "discharged" if j3 else "refuted", "abstract-exec", 0, where, "kernel-term", str(got)[:300])
    # J4: meaning of that term by the numpy contracts, for any number of rows (z3)
    N = z3.Int("N")
    FK, PK = z3.Array("fk", z3.IntSort(), z3.IntSort()), z3.Array("pk", z3.IntSort(), z3.IntSort())
    TG = z3.Array("target", z3.IntSort(), z3.RealSort())
    DEF = z3.Real("default")
    idx = z3.Array("idx", z3.IntSort(), z3.IntSort())
    out = z3.Array("out", z3.IntSort(), z3.RealSort())
    rowof = z3.Function("rowof", z3.IntSort(), z3.IntSort())
    i, k, j = z3.Ints("i k j")

    def P(i_, k_):  # padded match matrix
        return z3.Or(z3.And(0 <= k_, k_ < N, FK[i_] == PK[k_]), k_ == N)

    contracts = [
        # argmax(axis=1) of a boolean matrix: the first column holding True
        z3.ForAll([i], z3.Implies(z3.And(0 <= i, i < N), z3.And(0 <= idx[i], idx[i] <= N, P(i, idx[i]), z3.ForAll([k], z3.Implies(z3.And(0 <= k, k < idx[i]), z3.Not(P(i, k))))))),
        # take from the padded target
        z3.ForAll([i], z3.Implies(z3.And(0 <= i, i < N), out[i] == z3.If(idx[i] < N, TG[idx[i]], DEF))),
    ]
    pre = [
        N >= 0,
        z3.ForAll([i, j], z3.Implies(z3.And(0 <= i, i < N, 0 <= j, j < N, PK[i] == PK[j]), i == j)),
        z3.ForAll([i], z3.Implies(z3.And(0 <= i, i < N), PK[i] >= 0)),
        z3.ForAll([i], z3.Implies(z3.And(0 <= i, i < N, FK[i] >= 0), z3.And(0 <= rowof(FK[i]), rowof(FK[i]) < N, PK[rowof(FK[i])] == FK[i]))),
    ]
    goals = {
        "J4a a non-negative foreign key yields the target of THE row whose primary key equals it": z3.ForAll([i], z3.Implies(z3.And(0 <= i, i < N, FK[i] >= 0), out[i] == TG[rowof(FK[i])])),
        "J4b a negative foreign key yields the default": z3.ForAll([i], z3.Implies(z3.And(0 <= i, i < N, FK[i] < 0), out[i] == DEF)),
    }
    for name, goal in goals.items():
        r = solve.check([*pre, *contracts, z3.Not(goal)], 30)
        rep.ob(name, {"unsat": "discharged", "sat": "refuted"}.get(r.status, "unknown"), r.backend, r.seconds, where, "vc")
    r = solve.check([*pre, *contracts], 5, use_cvc5=False)
    if r.status == "unsat":
        rep.crashed = "vacuous hypotheses (join_numpy)"
    return j1 and j2 and j3


def array_rules(rep):
    """AR: the join-based array rules (skip_vectorization) executed on abstract arrays with
    join_numpy replaced by its (proved) contract term"""
    import importlib
    import inspect

    from vt import absnp

    T = absnp.T

    def J(fk, pk, tgt, value_if_foreign_key_is_missing=None):
        return T("join", fk, pk, tgt, value_if_foreign_key_is_missing)

    cases = {
        ("_gettsim.transfers.arbeitsl_geld_2.kindergelduebertrag", "kindergeld_zur_bedarfsdeckung_m"): lambda a: ("join", (a["p_id_kindergeld_empf"],), (a["p_id"],), (a["_mean_kindergeld_per_child_m"],), 0.0),
        ("_gettsim.transfers.unterhaltsvors", "parent_alleinerz"): lambda a: ("join", (a["p_id_kindergeld_empf"],), (a["p_id"],), (a["alleinerz"],), False),
        ("_gettsim.transfers.unterhaltsvors", "_unterhaltsvorschuss_empf_eink_above_income_threshold"): lambda a: ("join", (a["p_id_kindergeld_empf"],), (a["p_id"],), (a["_unterhaltsvorschuss_eink_above_income_threshold"],), False),
        ("_gettsim.transfers.kindergeld", "same_fg_as_kindergeldempfänger"): lambda a: ("eq", ("join", (a["p_id_kindergeld_empf"],), (a["p_id"],), (a["fg_id"],), -1), (a["fg_id"],)),
    }
    for (mod, name), want in cases.items():
        try:
            m = importlib.import_module(mod)
            f = inspect.unwrap(getattr(m, name))
        except (ImportError, AttributeError) as ex:
            rep.ob(f"AR {name} exists", "unsupported", "abstract-exec", 0, mod, "kernel-term", repr(ex))
            continue
        args = {a: a for a in inspect.signature(f).parameters}
        saved = f.__globals__.get("join_numpy")
        try:
            f.__globals__["join_numpy"] = J
            out = f(**{a: T(a) for a in args})
            got = out.key() if isinstance(out, T) else repr(out)
        except Exception as ex:  # noqa: BLE001
            got = repr(ex)
        finally:
            f.__globals__["join_numpy"] = saved
        w = want(args)
        ok = got == w
        rep.ob(f"AR {name}: per row, the value of the Kindergeld recipient's row (join contract J4), default if there is none", "discharged" if ok else "refuted", "abstract-exec", 0, mod, "kernel-term", f"got {got}")
        rep.functions.add(f"{mod}.{name}")
        # AR-T: the declared element type (the annotation is what converts a SUPPLIED column, C05) is the
        # element type of what the rule returns: the type of the looked-up column for a join, bool for a
        # comparison
        def _elem(ann):
            if ann in (float, int, bool):
                return ann.__name__
            t = str(ann)
            return next((k for k in ("float", "int", "bool") if t.endswith(f"[{k}]") or t == k or t.endswith(f"'{k}'>]")), None)

        anns = getattr(f, "__annotations__", {})
        if isinstance(w, tuple) and w[0] == "join":
            tgt_arg = w[3][0]
            want_t = _elem(anns.get(tgt_arg))
        else:
            want_t = "bool"
        got_t = _elem(anns.get("return"))
        okt = want_t is not None and got_t == want_t
        rep.ob(f"AR-T {name}: declared element type of the result is {want_t}", "discharged" if okt else "refuted", "typing", 0, mod, "return-type", f"declared {anns.get('return')}")
        if not okt:
            rep.violation(f"array-rule-type:{name}", f"{name} is declared {anns.get('return')} but returns values of element type {want_t} (a supplied column with the values the rule computes is converted to the declared type and rejected or changed)", {"obligation": f"AR-T {name}", "declared": str(anns.get("return")), "returns": want_t}, False)
        if not ok:
            rep.violation(f"array-rule:{name}", f"{name} no longer is the join of (p_id_kindergeld_empf, p_id, target, default) the contract describes: {got}", {"obligation": f"AR {name}", "got": str(got), "expected": str(w)}, False)


def bg_array_rule(rep):
    """AR5: _in_anderer_bedarfsgemeinschaft_als_kindergeldempfänger -- dict(zip(...)) + a list
    comprehension (a map) + elementwise != ; element expression evaluated symbolically (vt/loopvc)
    for an arbitrary row i, dict look-up safety and postcondition discharged by z3 (unbounded N)"""
    import ast
    import inspect
    import textwrap

    import z3

    from _gettsim.transfers.arbeitsl_geld_2 import kindergelduebertrag as kg
    from vt import loopvc

    name = "_in_anderer_bedarfsgemeinschaft_als_kindergeldempfänger"
    where = "src/_gettsim/transfers/arbeitsl_geld_2/kindergelduebertrag.py"
    f = inspect.unwrap(getattr(kg, name))
    fn = ast.parse(textwrap.dedent(inspect.getsource(f))).body[0]
    body = [s_ for s_ in fn.body if not (isinstance(s_, ast.Expr) and isinstance(s_.value, ast.Constant))]
    ok_shape = (
        len(body) == 3
        and isinstance(body[0], ast.Assign) and ast.unparse(body[0].value) == "dict(zip(p_id, bg_id))"
        and isinstance(body[1], ast.Assign) and isinstance(body[1].value, ast.ListComp) and ast.unparse(body[1].value.generators[0].iter) == "p_id_kindergeld_empf" and not body[1].value.generators[0].ifs
        and isinstance(body[2], ast.Return) and isinstance(body[2].value, ast.Compare) and isinstance(body[2].value.ops[0], ast.NotEq)
    )
    if not ok_shape:
        rep.ob(f"AR5 {name}: contract binds to the code", "unsupported", "E2", 0, where, "binding", ast.unparse(fn)[-200:])
        return
    dname = body[0].targets[0].id
    lname = body[1].targets[0].id
    comp = body[1].value
    xname = comp.generators[0].target.id
    Int = z3.IntSort()
    N = z3.Int("N")
    P, BG, E = z3.Array("p_id", Int, Int), z3.Array("bg_id", Int, Int), z3.Array("p_id_kindergeld_empf", Int, Int)
    D = loopvc.SDict(z3.Array("d!dom", Int, z3.BoolSort()), z3.Array("d!val", Int, Int))
    rowof = z3.Function("rowof", Int, Int)
    i, j, x = z3.Ints("i! j! x!")
    pre = [
        N >= 0,
        z3.ForAll([i, j], z3.Implies(z3.And(0 <= i, i < N, 0 <= j, j < N, P[i] == P[j]), i == j)),
        z3.ForAll([i], z3.Implies(z3.And(0 <= i, i < N, E[i] >= 0), z3.And(0 <= rowof(E[i]), rowof(E[i]) < N, P[rowof(E[i])] == E[i]))),
        # dict(zip(p_id, bg_id)) under unique keys
        z3.ForAll([i], z3.Implies(z3.And(0 <= i, i < N), z3.And(D.dom[P[i]], D.val[P[i]] == BG[i]))),
        z3.ForAll([x], z3.Implies(D.dom[x], z3.And(0 <= rowof(x), rowof(x) < N, P[rowof(x)] == x))),
    ]
    vc = loopvc.LoopVC(f)
    k = z3.Int("k")
    st = {dname: D, xname: z3.Select(E, k), "bg_id": loopvc.SArr(BG, N, Int), "p_id": loopvc.SArr(P, N, Int)}
    vc.safety = []
    try:
        elt = vc.ev(comp.elt, st, z3.BoolVal(True)) if not isinstance(comp.elt, ast.IfExp) else None
        if elt is None:
            c = vc.truth(vc.ev(comp.elt.test, st, z3.BoolVal(True)))
            a = vc.ev(comp.elt.body, st, c)
            b = vc.ev(comp.elt.orelse, st, z3.Not(c))
            elt = z3.If(c, a, b)
    except loopvc.Unsupported as ex:
        rep.ob(f"AR5 {name}: element expression inside the E2 subset", "unsupported", "E2", 0, where, "binding", str(ex))
        return
    left = ast.unparse(body[2].value.left)
    right = ast.unparse(body[2].value.comparators[0])
    if {left, right} != {"bg_id", lname}:
        rep.ob(f"AR5 {name}: compares bg_id with the mapped list", "unsupported", "E2", 0, where, "binding", ast.unparse(body[2]))
        return
    out_k = BG[k] != elt
    hyp = [*pre, 0 <= k, k < N]
    for pc, cond, desc in vc.safety:
        r = solve.check([*hyp, pc, z3.Not(cond)], 20)
        rep.ob(f"AR5 {name}: safety {desc}", {"unsat": "discharged", "sat": "refuted"}.get(r.status, "unknown"), r.backend, r.seconds, where, "vc")
    goal = out_k == (BG[k] != z3.If(E[k] >= 0, BG[rowof(E[k])], -1))
    r = solve.check([*hyp, z3.Not(goal)], 20)
    if r.status == "sat":
        # small counter-model -> concrete arrays -> the real function against the specification
        r2 = solve.check([*hyp, z3.Not(goal), N <= 4], 20)
        m = (r2 if r2.status == "sat" else r).model
        n = m.eval(N, model_completion=True).as_long()
        if 0 < n <= 64:
            col = lambda A: [m.eval(A[z3.IntVal(t)], model_completion=True).as_long() for t in range(n)]  # noqa: E731
            inp = {"p_id": col(P), "bg_id": col(BG), "p_id_kindergeld_empf": col(E)}
            try:
                got = [bool(v) for v in f(**{a: numpy.array(v) for a, v in inp.items()})]
            except Exception as ex:  # noqa: BLE001
                got = repr(ex)
            bgof = dict(zip(inp["p_id"], inp["bg_id"]))
            want = [b != (bgof.get(e_, None) if e_ >= 0 else -1) for b, e_ in zip(inp["bg_id"], inp["p_id_kindergeld_empf"])]
            if got != want:
                rep.violation(f"AR5:{name}", f"{name}{inp} returns {got}, definition gives {want}", {"rule": name, "input": inp, "got": got, "want": want, "replay": "array_rule"}, True)
    rep.ob(f"AR5 {name}: row i is True iff its bg_id differs from the bg_id of the row its Kindergeld recipient pointer names (-1 if none)", {"unsat": "discharged", "sat": "refuted"}.get(r.status, "unknown"), r.backend, r.seconds, where, "vc")
    rep.functions.add(f"{where} {name}")


def replay(path):
    from _gettsim import aggregation_numpy as an
    from _gettsim.shared import join_numpy

    rp = json.loads(open(path).read())
    k = rp.get("kernel", "")
    if k == "sum_by_p_id":
        got = an.sum_by_p_id(numpy.array(rp["column"]), numpy.array(rp["p_id_to_aggregate_by"]), numpy.array(rp["p_id_to_store_by"]))
        print(json.dumps({"got": got.tolist(), "expected": rp["expected"]}))
        return 1 if not numpy.allclose(got, rp["expected"]) else 0
    if k == "join_numpy" and "target" in rp:
        got = join_numpy(numpy.array(rp["foreign_key"]), numpy.array(rp["primary_key"]), numpy.array(rp["target"]), value_if_foreign_key_is_missing=-99.0)
        print(json.dumps({"got": numpy.asarray(got).tolist(), "expected": rp["expected"]}))
        return 1 if not numpy.allclose(got, rp["expected"]) else 0
    if k.startswith("grouped_") and "column" in rp:
        got = getattr(an, k)(numpy.array(rp["column"]), numpy.array(rp["group_id"]))
        print(json.dumps({"got": numpy.asarray(got).tolist(), "expected": rp["expected"]}))
        return 1 if not numpy.allclose(numpy.asarray(got, dtype=float), numpy.asarray(rp["expected"], dtype=float)) else 0
    if rp.get("replay") == "array_rule":
        import inspect as _i

        from _gettsim.transfers.arbeitsl_geld_2 import kindergelduebertrag as kg

        f = _i.unwrap(getattr(kg, rp["rule"]))
        try:
            got = [bool(v) for v in f(**{a: numpy.array(v) for a, v in rp["input"].items()})]
        except Exception as ex:  # noqa: BLE001
            got = repr(ex)
        print(json.dumps({"got": got, "expected": rp["want"]}))
        return 1 if got != rp["want"] else 0
    print(json.dumps(rp, indent=1))
    return 0


def run(tier="quick", seed=0, jobs=16):
    rep = Report("C11", tier, seed, "proof")
    rep.assumptions = [ASSUMPTIONS["A1"] + " (summation order within a group is ignored)", ASSUMPTIONS["T"],
                       "dtype classes bool / int64 / float64 / datetime64[ns] / object stand for all dtypes of their numpy kind",
                       "VALID for sum_by_p_id: store ids unique, every non-negative pointer is an existing id",
                       "the datetime branches of grouped_max/min: term by abstract execution + lemmas DT1-DT3 (whole-day values, no NaT, numpy cast contract: astype('datetime64[D]') floors the tick count to days); additionally run bounded-exhaustively; join_numpy is proved modulo the numpy contracts of unique / isin / pad / argmax / take and additionally run bounded-exhaustively"]
    rep.trusted = ["npg.aggregate(idx, a, func, fill_value): out[g] = func{a[j] : idx[j] = g} (validated against the real library on all small arrays, bounded run B)",
                   "numpy fancy indexing a[idx][i] = a[idx[i]]; ndarray.astype(int) maps False/True to 0/1", "z3 5.1.0", "vt/loopvc.py model of dict / array updates"]
    # P
    try:
        vcs, info = kernels.verification_conditions("sum_by_p_id")
        lost = []
        for oname, status, backend, secs, reason in kernels.discharge(vcs, 30):
            rep.ob("P " + oname, status, backend, secs, info["where"], "vc", reason)
            if status != "discharged":
                lost.append((oname, status))
        rep.functions.add(f"{info['where']} sum_by_p_id")
        r = solve.check(vcs[-1][1][:-1], 5, use_cvc5=False)
        if r.status == "unsat":
            rep.crashed = "vacuous hypotheses (sum_by_p_id)"
    except kernels.Unsupported as ex:
        rep.ob("P sum_by_p_id: contract binds to the code", "unsupported", "E2", 0, "src/_gettsim/aggregation_numpy.py:120", "binding", str(ex))
        lost = "unsupported"
    abstract_group_kernels(rep)
    datetime_lemmas(rep)
    join_ok = join_proof(rep)
    array_rules(rep)
    bg_array_rule(rep)
    dispatch_contract(rep)
    not_implemented(rep)
    precedence(rep)
    failing = bounded(rep, tier)
    if lost and lost != "unsupported" and "sum_by_p_id" not in failing:
        ref = [o for o, s in lost if s == "refuted"]
        if ref:
            rep.violation(f"sum_by_p_id:{ref[0]}", f"obligation refuted: {ref[0]}", {"obligation": ref[0]}, False)
    if "sum_by_p_id" in failing:
        rep.undecided = [u for u in rep.undecided if "sum_by_p_id" not in u]
    # a kernel whose abstract execution no longer yields the contracted term: violation if the exhaustive run on
    # small arrays shows a wrong value, otherwise undecided (another algorithm may compute the same function)
    for name, kern, key, what, rp in getattr(rep, "_pending_terms", []):
        if any(k.startswith(kern) for k in failing):
            rep.violation(key, what, rp, True)
        else:
            for o in rep.obligations:
                if o["name"] == name:
                    o["status"] = "unknown"
                    o["detail"] += " | not the contracted form; exhaustive run on small arrays agrees with the definition: undecided"
            rep.undecided.append(name)
    # a refuted abstract-execution obligation is replayed by the bounded run of the same kernel
    for v in rep.violations:
        if not v["failing_input_found"] and any(v["key"].startswith(k) for k in failing):
            v["failing_input_found"] = True
    rep.samples = rep.obligations[:2] + [o for o in rep.obligations if o["name"].startswith("A ")][:2] + [o for o in rep.obligations if o["name"].startswith("S ")][:1]
    if rep.crashed:
        rep.finish()
        return 3
    return rep.finish({"exhaustive": False})
