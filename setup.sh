#!/bin/sh
# Build the overlay venv used by every check. Offline; idempotent.
#   /verif/.venv  = python 3.12 (from /venv) + z3-solver, cvc5, icontract, deal, jsonschema
#                   from /opt/veriftools/wheels, plus a .pth that adds /venv's site-packages
#                   so that `_gettsim` (editable install -> /repo/src) and its deps resolve.
set -e
cd "$(dirname "$0")"
V=.venv
if [ ! -x "$V/bin/python" ] || ! "$V/bin/python" -c "import z3, jsonschema, _gettsim" >/dev/null 2>&1; then
  rm -rf "$V"
  /venv/bin/python -m venv "$V"
  PIP_NO_INDEX=1 "$V/bin/python" -m pip install -q --no-index --find-links /opt/veriftools/wheels \
      z3-solver cvc5 icontract deal jsonschema >/dev/null
  SP=$("$V/bin/python" -c "import sysconfig; print(sysconfig.get_paths()['purelib'])")
  echo "import site; site.addsitedir('/venv/lib/python3.12/site-packages')" > "$SP/zz_repo_overlay.pth"
fi
"$V/bin/python" -c "import z3, jsonschema, _gettsim, numpy, pandas; print('setup ok: z3', z3.get_version_string(), '_gettsim at', _gettsim.__file__)"
