"""Sidecar contracts (pre / loop invariant / post / exceptional post) for the array kernels of
src/_gettsim/groupings.py and sum_by_p_id, keyed by repository function name. Comment/data only:
no file in /repo is touched. State variables are referred to by the names they have in the code;
if the code renames one, the contract no longer binds and the check reports `unsupported`.

Conventions: N rows; `prow(i)` Skolem function "row of i's partner" supplied by the validity
domain (pointers point to existing persons, are symmetric and never point to oneself);
`rowof(x)` row of the person with p_id x.  first(i) := ptr[i] < 0 or prow(i) > i.
Postconditions are taken from the property statement (C12 / C11), written order-free.
"""
from __future__ import annotations

import z3

from vt.loopvc import SArr, SCounter, SDict, SDictList, SList

Int = z3.IntSort()
Bool = z3.BoolSort()
Real = z3.RealSort()


def _ints(*names):
    return [z3.Int(n) for n in names]


i, j, x, g = _ints("i!", "j!", "x!", "g!")


def A(name, sort=Int):
    return z3.Array(name, Int, sort)


# ------------------------------------------------------------------------------------------
# shared: validity domain of a partner pointer column
# ------------------------------------------------------------------------------------------
def partner_pre(N, p_id, ptr, prow, rowof):
    return [
        ("N >= 0", N >= 0),
        ("p_id unique", z3.ForAll([i, j], z3.Implies(z3.And(0 <= i, i < N, 0 <= j, j < N, p_id[i] == p_id[j]), i == j))),
        ("p_id >= 0", z3.ForAll([i], z3.Implies(z3.And(0 <= i, i < N), p_id[i] >= 0))),
        ("rowof inverts p_id", z3.ForAll([i], z3.Implies(z3.And(0 <= i, i < N), rowof(p_id[i]) == i))),
        ("pointer targets exist", z3.ForAll([i], z3.Implies(z3.And(0 <= i, i < N, ptr[i] >= 0), z3.And(0 <= prow(i), prow(i) < N, p_id[prow(i)] == ptr[i])))),
        ("pointer not to oneself", z3.ForAll([i], z3.Implies(z3.And(0 <= i, i < N), ptr[i] != p_id[i]))),
        ("pointers symmetric", z3.ForAll([i], z3.Implies(z3.And(0 <= i, i < N, ptr[i] >= 0), ptr[prow(i)] == p_id[i]))),
    ]


def first(ptr, prow, r):
    return z3.Or(ptr[r] < 0, prow(r) > r)


# ------------------------------------------------------------------------------------------
# eg_id_numpy / ehe_id_numpy
# ------------------------------------------------------------------------------------------
def couple_contract(p_name, ptr_name, dict_name, next_name):
    def inputs():
        N = z3.Int("N")
        return {"N": N, p_name: SArr(A(p_name), N, Int), ptr_name: SArr(A(ptr_name), N, Int)}, {"prow": z3.Function("prow", Int, Int), "rowof": z3.Function("rowof", Int, Int)}

    def pre(inp, gh):
        return partner_pre(inp["N"], inp[p_name].arr, inp[ptr_name].arr, gh["prow"], gh["rowof"])

    def inv(inp, gh, st, k):
        N, p, ptr, prow, rowof = inp["N"], inp[p_name].arr, inp[ptr_name].arr, gh["prow"], gh["rowof"]
        D, M = st[dict_name].dom, st[dict_name].val
        Rr, ln, nxt = st["result"].arr, st["result"].len, st[next_name]
        f = lambda r: first(ptr, prow, r)  # noqa: E731
        return [
            ("I0 bounds", z3.And(0 <= k, k <= N, ln == k, nxt >= 0)),
            ("I1a openers are in the dict with their id", z3.ForAll([i], z3.Implies(z3.And(0 <= i, i < k, f(i)), z3.And(D[p[i]], M[p[i]] == Rr[i])))),
            ("I1b dict keys are processed opener rows", z3.ForAll([x], z3.Implies(D[x], z3.And(0 <= rowof(x), rowof(x) < k, p[rowof(x)] == x, f(rowof(x)))))),
            ("I2 followers copy the id of their partner", z3.ForAll([i], z3.Implies(z3.And(0 <= i, i < k, z3.Not(f(i))), Rr[i] == Rr[prow(i)]))),
            ("I3a ids below the counter", z3.ForAll([i], z3.Implies(z3.And(0 <= i, i < k), z3.And(0 <= Rr[i], Rr[i] < nxt)))),
            ("I3b openers have distinct ids", z3.ForAll([i, j], z3.Implies(z3.And(0 <= i, i < j, j < k, f(i), f(j)), Rr[i] != Rr[j]))),
        ]

    def post(inp, gh, st):
        N, p, ptr = inp["N"], inp[p_name].arr, inp[ptr_name].arr
        Rr = st["__return__"].arr
        return [
            ("P0 one id per row", st["__return__"].len == N),
            ("P1 same id iff same person or partners (order-free partition)",
             z3.ForAll([i, j], z3.Implies(z3.And(0 <= i, i < N, 0 <= j, j < N),
                                           (Rr[i] == Rr[j]) == z3.Or(i == j, z3.And(ptr[i] >= 0, ptr[i] == p[j]))))),
            ("P2 ids non-negative", z3.ForAll([i], z3.Implies(z3.And(0 <= i, i < N), Rr[i] >= 0))),
        ]

    return {"inputs": inputs, "pre": pre, "inv": inv, "post": post, "loop_var_names": [dict_name, next_name, "result"]}


# ------------------------------------------------------------------------------------------
# sn_id_numpy
# ------------------------------------------------------------------------------------------
def sn_contract():
    p_name, ptr_name, gv_name = "p_id", "p_id_ehepartner", "gemeinsam_veranlagt"

    def inputs():
        N = z3.Int("N")
        return {"N": N, p_name: SArr(A(p_name), N, Int), ptr_name: SArr(A(ptr_name), N, Int), gv_name: SArr(A(gv_name, Bool), N, Bool)}, {"prow": z3.Function("prow", Int, Int), "rowof": z3.Function("rowof", Int, Int)}

    def pre(inp, gh):
        return partner_pre(inp["N"], inp[p_name].arr, inp[ptr_name].arr, gh["prow"], gh["rowof"])

    def inv(inp, gh, st, k):
        N, p, ptr, gv, prow, rowof = inp["N"], inp[p_name].arr, inp[ptr_name].arr, inp[gv_name].arr, gh["prow"], gh["rowof"]
        D, M = st["p_id_to_sn_id"].dom, st["p_id_to_sn_id"].val
        GD, G = st["p_id_to_gemeinsam_veranlagt"].dom, st["p_id_to_gemeinsam_veranlagt"].val
        Rr, ln, nxt = st["result"].arr, st["result"].len, st["next_sn_id"]
        f = lambda r: first(ptr, prow, r)  # noqa: E731
        op = lambda r: z3.Or(f(r), z3.Not(gv[r]))  # noqa: E731
        return [
            ("J0 bounds", z3.And(0 <= k, k <= N, ln == k, nxt >= 0)),
            ("J1a openers are in both dicts", z3.ForAll([i], z3.Implies(z3.And(0 <= i, i < k, op(i)), z3.And(D[p[i]], GD[p[i]], M[p[i]] == Rr[i], G[p[i]] == z3.If(gv[i], 1, 0))))),
            ("J1b dict keys are processed opener rows", z3.ForAll([x], z3.Implies(D[x], z3.And(0 <= rowof(x), rowof(x) < k, p[rowof(x)] == x, op(rowof(x)))))),
            ("J2 joint followers copy the id of their spouse", z3.ForAll([i], z3.Implies(z3.And(0 <= i, i < k, z3.Not(op(i))), Rr[i] == Rr[prow(i)]))),
            ("J3 processed later spouses agree on the flag", z3.ForAll([i], z3.Implies(z3.And(0 <= i, i < k, z3.Not(f(i))), gv[i] == gv[prow(i)]))),
            ("J4a ids below the counter", z3.ForAll([i], z3.Implies(z3.And(0 <= i, i < k), z3.And(0 <= Rr[i], Rr[i] < nxt)))),
            ("J4b openers have distinct ids", z3.ForAll([i, j], z3.Implies(z3.And(0 <= i, i < j, j < k, op(i), op(j)), Rr[i] != Rr[j]))),
        ]

    def post(inp, gh, st):
        N, p, ptr, gv, prow = inp["N"], inp[p_name].arr, inp[ptr_name].arr, inp[gv_name].arr, gh["prow"]
        Rr = st["__return__"].arr
        return [
            ("P0 one id per row", st["__return__"].len == N),
            ("P1 same id iff same person or jointly assessed spouses",
             z3.ForAll([i, j], z3.Implies(z3.And(0 <= i, i < N, 0 <= j, j < N),
                                           (Rr[i] == Rr[j]) == z3.Or(i == j, z3.And(ptr[i] >= 0, ptr[i] == p[j], gv[i], gv[j]))))),
            ("P2 normal return => spouses agree on gemeinsam_veranlagt (C20)", z3.ForAll([i], z3.Implies(z3.And(0 <= i, i < N, ptr[i] >= 0), gv[i] == gv[prow(i)]))),
        ]

    def exc_post(inp, gh, st, k, exc):
        # ValueError is raised only if two spouses disagree
        N, ptr, gv, prow = inp["N"], inp[ptr_name].arr, inp[gv_name].arr, gh["prow"]
        return [("X1 ValueError => the current row and its spouse disagree", z3.And(exc == "ValueError", ptr[k] >= 0, gv[k] != gv[prow(k)]))]

    return {"inputs": inputs, "pre": pre, "inv": inv, "post": post, "exc_post": exc_post}


# ------------------------------------------------------------------------------------------
# bg_id_numpy
# ------------------------------------------------------------------------------------------
def bg_contract():
    def inputs():
        N = z3.Int("N")
        cnt = z3.Function("cnt", Int, Int, Int)  # ghost: cnt(k, g) = #{i < k : split(i) and fg[i] = g}
        return {"N": N, "fg_id": SArr(A("fg_id"), N, Int), "alter": SArr(A("alter"), N, Int), "eigenbedarf_gedeckt": SArr(A("eigenbedarf_gedeckt", Bool), N, Bool)}, {"cnt": cnt}

    def split(inp, r):
        return z3.And(inp["alter"].arr[r] < 25, inp["eigenbedarf_gedeckt"].arr[r])

    def pre(inp, gh):
        N, fg, cnt = inp["N"], inp["fg_id"].arr, gh["cnt"]
        kk = z3.Int("kk!")
        return [
            ("N >= 0", N >= 0),
            ("fg_id >= 0", z3.ForAll([i], z3.Implies(z3.And(0 <= i, i < N), fg[i] >= 0))),
            ("ghost count base", z3.ForAll([g], cnt(0, g) == 0)),
            ("ghost count step", z3.ForAll([kk, g], z3.Implies(z3.And(0 <= kk, kk < N), cnt(kk + 1, g) == cnt(kk, g) + z3.If(z3.And(split(inp, kk), fg[kk] == g), 1, 0)))),
            ("VALID: fewer than 100 self-sufficient children per Familiengemeinschaft", z3.ForAll([g], cnt(N, g) <= 99)),
        ]

    def inv(inp, gh, st, k):
        N, fg, cnt = inp["N"], inp["fg_id"].arr, gh["cnt"]
        C = st["counter"].arr
        Rr, ln = st["result"].arr, st["result"].len
        sp = lambda r: split(inp, r)  # noqa: E731
        return [
            ("K0 bounds", z3.And(0 <= k, k <= N, ln == k)),
            ("K1 counter equals the ghost count", z3.ForAll([g], C[g] == cnt(k, g))),
            ("K1b ghost count non-negative", z3.ForAll([g], cnt(k, g) >= 0)),
            ("K2 members keep fg_id*100", z3.ForAll([i], z3.Implies(z3.And(0 <= i, i < k, z3.Not(sp(i))), Rr[i] == 100 * fg[i]))),
            ("K3 split-off children get offsets 1..count", z3.ForAll([i], z3.Implies(z3.And(0 <= i, i < k, sp(i)), z3.And(1 <= Rr[i] - 100 * fg[i], Rr[i] - 100 * fg[i] <= cnt(k, fg[i]))))),
            ("K4 split-off children of one fg have distinct ids", z3.ForAll([i, j], z3.Implies(z3.And(0 <= i, i < j, j < k, sp(i), sp(j), fg[i] == fg[j]), Rr[i] != Rr[j]))),
        ]

    def post(inp, gh, st):
        N, fg = inp["N"], inp["fg_id"].arr
        Rr = st["__return__"].arr
        sp = lambda r: split(inp, r)  # noqa: E731
        return [
            ("P0 one id per row", st["__return__"].len == N),
            ("P1 same bg iff same fg and (same person or neither split off)",
             z3.ForAll([i, j], z3.Implies(z3.And(0 <= i, i < N, 0 <= j, j < N),
                                           (Rr[i] == Rr[j]) == z3.And(fg[i] == fg[j], z3.Or(i == j, z3.And(z3.Not(sp(i)), z3.Not(sp(j)))))))),
            ("P2 nesting: bg_id determines fg_id (100*fg <= bg < 100*fg + 100)", z3.ForAll([i], z3.Implies(z3.And(0 <= i, i < N), z3.And(100 * fg[i] <= Rr[i], Rr[i] < 100 * fg[i] + 100)))),
        ]

    return {"inputs": inputs, "pre": pre, "inv": inv, "post": post}


# ------------------------------------------------------------------------------------------
# wthh_id_numpy
# ------------------------------------------------------------------------------------------
def wthh_contract():
    def inputs():
        N = z3.Int("N")
        return {"N": N, "hh_id": SArr(A("hh_id"), N, Int), "wohngeld_vorrang_bg": SArr(A("wohngeld_vorrang_bg", Bool), N, Bool), "wohngeld_kinderzuschl_vorrang_bg": SArr(A("wohngeld_kinderzuschl_vorrang_bg", Bool), N, Bool)}, {}

    def flag(inp, r):
        return z3.Or(inp["wohngeld_vorrang_bg"].arr[r], inp["wohngeld_kinderzuschl_vorrang_bg"].arr[r])

    def pre(inp, gh):
        return [("N >= 0", inp["N"] >= 0), ("hh_id >= 0", z3.ForAll([i], z3.Implies(z3.And(0 <= i, i < inp["N"]), inp["hh_id"].arr[i] >= 0)))]

    def inv(inp, gh, st, k):
        hh = inp["hh_id"].arr
        Rr, ln = st["result"].arr, st["result"].len
        return [
            ("W0 bounds", z3.And(0 <= k, k <= inp["N"], ln == k)),
            ("W1 id = hh_id*100 + priority flag", z3.ForAll([i], z3.Implies(z3.And(0 <= i, i < k), Rr[i] == 100 * hh[i] + z3.If(flag(inp, i), 1, 0)))),
        ]

    def post(inp, gh, st):
        N, hh = inp["N"], inp["hh_id"].arr
        Rr = st["__return__"].arr
        return [
            ("P0 one id per row", st["__return__"].len == N),
            ("P1 same part-household iff same household and same priority result",
             z3.ForAll([i, j], z3.Implies(z3.And(0 <= i, i < N, 0 <= j, j < N), (Rr[i] == Rr[j]) == z3.And(hh[i] == hh[j], flag(inp, i) == flag(inp, j))))),
            ("P2 nesting: wthh_id determines hh_id", z3.ForAll([i], z3.Implies(z3.And(0 <= i, i < N), z3.And(100 * hh[i] <= Rr[i], Rr[i] <= 100 * hh[i] + 1)))),
        ]

    return {"inputs": inputs, "pre": pre, "inv": inv, "post": post}


# ------------------------------------------------------------------------------------------
# sum_by_p_id
# ------------------------------------------------------------------------------------------
def sum_by_p_id_contract():
    def inputs():
        N = z3.Int("N")
        S = z3.Function("S", Int, Int, Real)  # ghost partial sum S(k, pos)
        return {"N": N, "column": SArr(A("column", Real), N, Real), "p_id_to_aggregate_by": SArr(A("p_id_to_aggregate_by"), N, Int), "p_id_to_store_by": SArr(A("p_id_to_store_by"), N, Int)}, {"S": S, "rowof": z3.Function("rowof", Int, Int)}

    def pre(inp, gh):
        N, col, agg, store, S, rowof = inp["N"], inp["column"].arr, inp["p_id_to_aggregate_by"].arr, inp["p_id_to_store_by"].arr, gh["S"], gh["rowof"]
        kk, pos = z3.Int("kk!"), z3.Int("pos!")
        return [
            ("N >= 0", N >= 0),
            ("store ids unique", z3.ForAll([i, j], z3.Implies(z3.And(0 <= i, i < N, 0 <= j, j < N, store[i] == store[j]), i == j))),
            ("rowof inverts the store ids", z3.ForAll([i], z3.Implies(z3.And(0 <= i, i < N), rowof(store[i]) == i))),
            ("every non-negative pointer is an existing id", z3.ForAll([i], z3.Implies(z3.And(0 <= i, i < N, agg[i] >= 0), z3.And(0 <= rowof(agg[i]), rowof(agg[i]) < N, store[rowof(agg[i])] == agg[i])))),
            ("ghost sum base", z3.ForAll([pos], S(0, pos) == 0)),
            ("ghost sum step: row k is credited to exactly the person it points to; negative pointers ignored",
             z3.ForAll([kk, pos], z3.Implies(z3.And(0 <= kk, kk < N), S(kk + 1, pos) == S(kk, pos) + z3.If(z3.And(agg[kk] >= 0, agg[kk] == store[pos]), col[kk], 0)))),
        ]

    def dict_comprehension_contract(inp, gh, d):
        """{p_id: iloc for iloc, p_id in enumerate(p_id_to_store_by)} under uniqueness"""
        N, store, rowof = inp["N"], inp["p_id_to_store_by"].arr, gh["rowof"]
        return [
            z3.ForAll([i], z3.Implies(z3.And(0 <= i, i < N), z3.And(d.dom[store[i]], d.val[store[i]] == i))),
            z3.ForAll([x], z3.Implies(d.dom[x], z3.And(0 <= d.val[x], d.val[x] < N, store[d.val[x]] == x))),
        ]

    def inv(inp, gh, st, k):
        N, S = inp["N"], gh["S"]
        out = st["out"].arr
        pos = z3.Int("pos!")
        return [
            ("S0 bounds", z3.And(0 <= k, k <= N)),
            ("S1 out equals the ghost partial sum", z3.ForAll([pos], z3.Implies(z3.And(0 <= pos, pos < N), out[pos] == S(k, pos)))),
        ]

    def post(inp, gh, st):
        N, S = inp["N"], gh["S"]
        out = st["__return__"].arr
        pos = z3.Int("pos!")
        return [("P1 out[pos] = sum of column over the rows pointing to store[pos]", z3.ForAll([pos], z3.Implies(z3.And(0 <= pos, pos < N), out[pos] == S(N, pos))))]

    return {"inputs": inputs, "pre": pre, "inv": inv, "post": post, "dict_comprehension": dict_comprehension_contract}

# ------------------------------------------------------------------------------------------
# fg_id_numpy, stage 1 (the index-building loop): p_id_to_index inverts p_id; p_id_to_p_ids_children[x]
# lists exactly the persons whose first or second parent pointer is x (sound, complete, never empty)
# ------------------------------------------------------------------------------------------
def fg_index_contract():
    names = ["p_id", "hh_id", "alter", "p_id_einstandspartner", "p_id_elternteil_1", "p_id_elternteil_2"]

    def inputs():
        N = z3.Int("N")
        inp = {"N": N}
        for n in names:
            inp[n] = SArr(A(n), N, Int)
        return inp, {"rowof": z3.Function("rowof", Int, Int)}

    def pre(inp, gh):
        N, p, rowof = inp["N"], inp["p_id"].arr, gh["rowof"]
        return [
            ("N >= 0", N >= 0),
            ("p_id unique", z3.ForAll([i, j], z3.Implies(z3.And(0 <= i, i < N, 0 <= j, j < N, p[i] == p[j]), i == j))),
            ("rowof inverts p_id", z3.ForAll([i], z3.Implies(z3.And(0 <= i, i < N), rowof(p[i]) == i))),
        ]

    m = z3.Int("m!")

    def inv(inp, gh, st, k):
        N, p, e1, e2, rowof = inp["N"], inp["p_id"].arr, inp["p_id_elternteil_1"].arr, inp["p_id_elternteil_2"].arr, gh["rowof"]
        ix, ch = st["p_id_to_index"], st["p_id_to_p_ids_children"]
        elem = lambda x_, m_: z3.Select(z3.Select(ch.elems, x_), m_)  # noqa: E731
        r = lambda x_, m_: rowof(elem(x_, m_))  # noqa: E731
        return [
            ("A0 bounds", z3.And(0 <= k, k <= N)),
            ("A1 every processed person is indexed by its row", z3.ForAll([i], z3.Implies(z3.And(0 <= i, i < k), z3.And(ix.dom[p[i]], ix.val[p[i]] == i)))),
            ("A2 index keys are processed persons", z3.ForAll([x], z3.Implies(ix.dom[x], z3.And(0 <= ix.val[x], ix.val[x] < k, p[ix.val[x]] == x)))),
            ("A3 list members are processed persons naming the key as a parent (soundness)",
             z3.ForAll([x, m], z3.Implies(z3.And(ch.dom[x], 0 <= m, m < ch.lens[x]),
                                          z3.And(x >= 0, 0 <= r(x, m), r(x, m) < k, p[r(x, m)] == elem(x, m), z3.Or(e1[r(x, m)] == x, e2[r(x, m)] == x))))),
            ("A4 lists in the dict are never empty", z3.ForAll([x], z3.Implies(ch.dom[x], ch.lens[x] >= 1))),
            ("A5a every processed first-parent pointer is recorded (completeness)",
             z3.ForAll([i], z3.Implies(z3.And(0 <= i, i < k, e1[i] >= 0), z3.And(ch.dom[e1[i]], z3.Exists([m], z3.And(0 <= m, m < ch.lens[e1[i]], elem(e1[i], m) == p[i])))))),
            ("A5b every processed second-parent pointer is recorded (completeness)",
             z3.ForAll([i], z3.Implies(z3.And(0 <= i, i < k, e2[i] >= 0), z3.And(ch.dom[e2[i]], z3.Exists([m], z3.And(0 <= m, m < ch.lens[e2[i]], elem(e2[i], m) == p[i])))))),
        ]

    def post(inp, gh, st):
        N, p, e1, e2 = inp["N"], inp["p_id"].arr, inp["p_id_elternteil_1"].arr, inp["p_id_elternteil_2"].arr
        ix, ch = st["p_id_to_index"], st["p_id_to_p_ids_children"]
        elem = lambda x_, m_: z3.Select(z3.Select(ch.elems, x_), m_)  # noqa: E731
        return [
            ("Q1 p_id_to_index[p_id[i]] = i for every row, and has no other key",
             z3.And(z3.ForAll([i], z3.Implies(z3.And(0 <= i, i < N), z3.And(ix.dom[p[i]], ix.val[p[i]] == i))),
                    z3.ForAll([x], z3.Implies(ix.dom[x], z3.And(0 <= ix.val[x], ix.val[x] < N, p[ix.val[x]] == x))))),
            ("Q2 every member of children[x] is an existing person one of whose parent pointers is x (so the later look-up p_id_to_index[child] cannot fail)",
             z3.ForAll([x, m], z3.Implies(z3.And(ch.dom[x], 0 <= m, m < ch.lens[x]),
                                          z3.And(ix.dom[elem(x, m)], z3.Or(e1[ix.val[elem(x, m)]] == x, e2[ix.val[elem(x, m)]] == x))))),
            ("Q3 x has an entry iff some row names x (>= 0) as a parent; then that person is in the list",
             z3.And(z3.ForAll([i], z3.Implies(z3.And(0 <= i, i < N, e1[i] >= 0), z3.And(ch.dom[e1[i]], z3.Exists([m], z3.And(0 <= m, m < ch.lens[e1[i]], elem(e1[i], m) == p[i]))))),
                    z3.ForAll([i], z3.Implies(z3.And(0 <= i, i < N, e2[i] >= 0), z3.And(ch.dom[e2[i]], z3.Exists([m], z3.And(0 <= m, m < ch.lens[e2[i]], elem(e2[i], m) == p[i]))))),
                    z3.ForAll([x], z3.Implies(ch.dom[x], z3.And(x >= 0, ch.lens[x] >= 1))))),
        ]

    return {"function": "fg_id_numpy", "stage_only": True, "n_loops": 2, "inputs": inputs, "pre": pre, "inv": inv, "post": post}

# ------------------------------------------------------------------------------------------
# fg_id_numpy, stage 2 (the assignment loop with its nested loop over the children lists), under the proved
# postcondition of stage 1: SAFETY, RANGE and NESTING -- no KeyError / IndexError on any path for any number of rows,
# every person receives an id, ids lie in [0, number of opened units), and two persons with the same id live in
# the same household (the "family unit within household" clause of C12; needs VALID: partners share hh_id), and
# EXCLUSION R3: two different persons with the same id who are both 25 or older or have a child in the data are
# Einstandspartner (pins "childless children under 25"; needs VALID: symmetric partner pointers).
# The rest of the partition (who shares an id) is NOT part of this contract; it stays with the bounded-exhaustive run.
# ------------------------------------------------------------------------------------------
def fg_assign_contract():
    base = fg_index_contract()
    y = z3.Int("y!")

    def pre(inp, gh):
        N, p, hh, ptr, rowof = inp["N"], inp["p_id"].arr, inp["hh_id"].arr, inp["p_id_einstandspartner"].arr, gh["rowof"]
        return base["pre"](inp, gh) + [
            ("VALID: a partner pointer is -1 or an existing person of the same household",
             z3.ForAll([i], z3.Implies(z3.And(0 <= i, i < N, ptr[i] >= 0), z3.And(0 <= rowof(ptr[i]), rowof(ptr[i]) < N, p[rowof(ptr[i])] == ptr[i], hh[rowof(ptr[i])] == hh[i])))),
            ("VALID: partner pointers are symmetric and never point to oneself",
             z3.ForAll([i], z3.Implies(z3.And(0 <= i, i < N, ptr[i] >= 0), z3.And(ptr[rowof(ptr[i])] == p[i], ptr[i] != p[i])))),
        ]

    def adult(inp, gh, st, x_):
        """not eligible as a child: 25 or older, or has a child in the data (the statement's "childless children under 25")"""
        return z3.Or(inp["alter"].arr[gh["rowof"](x_)] >= 25, st["p_id_to_p_ids_children"].dom[x_])

    def pairs(inp, gh, st):
        fg, ptr, rowof = st["p_id_to_fg_id"], inp["p_id_einstandspartner"].arr, gh["rowof"]
        return z3.ForAll([x, y], z3.Implies(z3.And(fg.dom[x], fg.dom[y], x != y, fg.val[x] == fg.val[y], adult(inp, gh, st, x), adult(inp, gh, st, y)), ptr[rowof(x)] == y))

    def carry(inp, gh):
        ix = SDict(A("p_id_to_index!c", Bool), A("p_id_to_index!cv"))
        ch = SDictList(A("p_id_to_p_ids_children!c", Bool), z3.Array("p_id_to_p_ids_children!ce", Int, z3.ArraySort(Int, Int)), A("p_id_to_p_ids_children!cl"))
        st = {"p_id_to_index": ix, "p_id_to_p_ids_children": ch}
        return st, [f for _, f in base["post"](inp, gh, st)]

    def nest(inp, gh, fg):
        hh, rowof = inp["hh_id"].arr, gh["rowof"]
        return z3.ForAll([x, y], z3.Implies(z3.And(fg.dom[x], fg.dom[y], fg.val[x] == fg.val[y]), hh[rowof(x)] == hh[rowof(y)]))

    def exist(inp, gh, fg):
        N, p, rowof = inp["N"], inp["p_id"].arr, gh["rowof"]
        return z3.ForAll([x], z3.Implies(fg.dom[x], z3.And(0 <= rowof(x), rowof(x) < N, p[rowof(x)] == x)))

    def inv(inp, gh, st, k):
        N, p = inp["N"], inp["p_id"].arr
        fg, nxt = st["p_id_to_fg_id"], st["next_fg_id"]
        return [
            ("B0 bounds", z3.And(0 <= k, k <= N, nxt >= 0)),
            ("B1 every processed person has an id", z3.ForAll([i], z3.Implies(z3.And(0 <= i, i < k), fg.dom[p[i]]))),
            ("B2 assigned ids lie below the counter", z3.ForAll([x], z3.Implies(fg.dom[x], z3.And(0 <= fg.val[x], fg.val[x] < nxt)))),
            ("B3 keys are existing persons", exist(inp, gh, fg)),
            ("B4 persons with the same id live in the same household", nest(inp, gh, fg)),
            ("B5 two different persons with the same id who are 25 or older or have a child in the data are partners", pairs(inp, gh, st)),
        ]

    def inner_inv(inp, gh, st_entry, st, t, lst):
        fg0, fg, nxt = st_entry["p_id_to_fg_id"], st["p_id_to_fg_id"], st["next_fg_id"]
        hh, rowof = inp["hh_id"].arr, gh["rowof"]
        cur = st_entry["current_hh_id"]  # the opener's household as the code holds it
        return [
            ("C0 position", z3.And(0 <= t, t <= lst.len)),
            ("C1 no id is removed", z3.ForAll([x], z3.Implies(fg0.dom[x], fg.dom[x]))),
            ("C2 assigned ids lie at or below the counter", z3.ForAll([x], z3.Implies(fg.dom[x], z3.And(0 <= fg.val[x], fg.val[x] <= nxt)))),
            ("C3 keys are existing persons", exist(inp, gh, fg)),
            ("C4 persons with the same id live in the same household", nest(inp, gh, fg)),
            ("C5 members of the unit being opened live in the opener's household", z3.ForAll([x], z3.Implies(z3.And(fg.dom[x], fg.val[x] == nxt), hh[rowof(x)] == cur))),
            ("C6 two different persons with the same id who are 25 or older or have a child in the data are partners", pairs(inp, gh, st)),
            ("C7 the unit being opened holds the opener, the opener's partner and persons under 25 without a child in the data",
             z3.ForAll([x], z3.Implies(z3.And(fg.dom[x], fg.val[x] == nxt),
                                       z3.Or(x == st_entry["current_p_id"], z3.And(st_entry["current_p_id_einstandspartner"] >= 0, x == st_entry["current_p_id_einstandspartner"]), z3.Not(adult(inp, gh, st, x)))))),
        ]

    def post(inp, gh, st):
        N, hh = inp["N"], inp["hh_id"].arr
        Rr, nxt = st["__return__"], st["next_fg_id"]
        return [
            ("R0 one id per row", Rr.len == N),
            ("R1 ids lie in [0, number of opened units)", z3.ForAll([i], z3.Implies(z3.And(0 <= i, i < N), z3.And(0 <= Rr.arr[i], Rr.arr[i] < nxt)))),
            ("R2 nesting: two rows with the same Familiengemeinschaft id have the same hh_id (family unit within household)",
             z3.ForAll([i, j], z3.Implies(z3.And(0 <= i, i < N, 0 <= j, j < N, Rr.arr[i] == Rr.arr[j]), hh[i] == hh[j]))),
            ("R3 nothing else shares: two different rows with the same id that are both 25 or older or have a child in the data are Einstandspartner",
             z3.ForAll([i, j], z3.Implies(z3.And(0 <= i, i < N, 0 <= j, j < N, i != j, Rr.arr[i] == Rr.arr[j],
                                                 z3.Or(inp["alter"].arr[i] >= 25, st["p_id_to_p_ids_children"].dom[inp["p_id"].arr[i]]),
                                                 z3.Or(inp["alter"].arr[j] >= 25, st["p_id_to_p_ids_children"].dom[inp["p_id"].arr[j]])),
                                          inp["p_id_einstandspartner"].arr[i] == inp["p_id"].arr[j]))),
        ]

    return {"function": "fg_id_numpy", "n_loops": 2, "loop_no": 1, "inputs": base["inputs"], "pre": pre, "carry": carry, "inv": inv, "inner_inv": inner_inv, "post": post}

# ------------------------------------------------------------------------------------------
# fg_id_numpy, stage 2 once more under a STRONGER validity domain -- p_id >= 0 and no partnered person is eligible as a
# child (under 25 without a child in the data; the unambiguity condition V2 of specs/groupings_spec.py in its simplest
# form) -- adds R4: Einstandspartner share a Familiengemeinschaft id. Kept apart from fg_id_numpy#assign so that R0-R3
# stay proved under the weaker VALID.
# ------------------------------------------------------------------------------------------
def fg_partners_contract():
    old = fg_assign_contract()

    def adult_row(inp, st, r):
        return z3.Or(inp["alter"].arr[r] >= 25, st["p_id_to_p_ids_children"].dom[inp["p_id"].arr[r]])

    def vstrong(inp, gh, st):
        N, ptr = inp["N"], inp["p_id_einstandspartner"].arr
        return z3.ForAll([i], z3.Implies(z3.And(0 <= i, i < N, ptr[i] >= 0), adult_row(inp, st, i)))

    def pre(inp, gh):
        N, p = inp["N"], inp["p_id"].arr
        return old["pre"](inp, gh) + [("VALID: p_id >= 0", z3.ForAll([i], z3.Implies(z3.And(0 <= i, i < N), p[i] >= 0)))]

    def carry(inp, gh):
        st, hyps = old["carry"](inp, gh)
        # VALID (stated over the children index handed over by stage 1): a person with a partner is 25 or older or has a child
        return st, [*hyps, vstrong(inp, gh, st)]

    def share(inp, gh, st):
        fg, ptr, rowof = st["p_id_to_fg_id"], inp["p_id_einstandspartner"].arr, gh["rowof"]
        return z3.ForAll([x], z3.Implies(z3.And(fg.dom[x], ptr[rowof(x)] >= 0), z3.And(fg.dom[ptr[rowof(x)]], fg.val[ptr[rowof(x)]] == fg.val[x])))

    def inv(inp, gh, st, k):
        return old["inv"](inp, gh, st, k) + [("B6 a person with an id and a partner: the partner has the same id", share(inp, gh, st))]

    def inner_inv(inp, gh, st_entry, st, t, lst):
        return old["inner_inv"](inp, gh, st_entry, st, t, lst) + [("C8 partners with an id share it", share(inp, gh, st))]

    def post(inp, gh, st):
        N, ptr, rowof = inp["N"], inp["p_id_einstandspartner"].arr, gh["rowof"]
        Rr = st["__return__"]
        return old["post"](inp, gh, st) + [
            ("R4 Einstandspartner share a Familiengemeinschaft id",
             z3.ForAll([i], z3.Implies(z3.And(0 <= i, i < N, ptr[i] >= 0), Rr.arr[i] == Rr.arr[rowof(ptr[i])]))),
        ]

    return {**old, "pre": pre, "carry": carry, "inv": inv, "inner_inv": inner_inv, "post": post}


# ------------------------------------------------------------------------------------------
# fg_id_numpy, stage 2 under the FULL unambiguity domain of the executable spec -- additionally: parent pointers are -1
# or existing persons, and two different co-resident parents of an eligible child are Einstandspartner -- adds R5: a
# childless child under 25 has the id of every co-resident parent. With R3 (exclusion), R4 (partners) and R2 (nesting)
# this is the Familiengemeinschaft clause of C12 for any number of rows on that domain.
# ------------------------------------------------------------------------------------------
def fg_children_contract():
    old = fg_partners_contract()
    P_, c_ = z3.Int("P!"), z3.Int("c!")
    def elig(inp, gh, st, c):
        return z3.And(inp["alter"].arr[gh["rowof"](c)] < 25, z3.Not(st["p_id_to_p_ids_children"].dom[c]))
    def par(inp, gh, c, P):
        r = gh["rowof"](c)
        return z3.And(P >= 0, z3.Or(inp["p_id_elternteil_1"].arr[r] == P, inp["p_id_elternteil_2"].arr[r] == P))
    def exists(inp, gh, x_):
        N, p, rowof = inp["N"], inp["p_id"].arr, gh["rowof"]
        return z3.And(0 <= rowof(x_), rowof(x_) < N, p[rowof(x_)] == x_)
    def cores(inp, gh, a, b):
        hh, rowof = inp["hh_id"].arr, gh["rowof"]
        return hh[rowof(a)] == hh[rowof(b)]
    def pre(inp, gh):
        N, p, e1, e2, rowof = inp["N"], inp["p_id"].arr, inp["p_id_elternteil_1"].arr, inp["p_id_elternteil_2"].arr, gh["rowof"]
        return old["pre"](inp, gh) + [
            ("VALID: parent pointers are -1 or existing persons", z3.ForAll([i], z3.Implies(z3.And(0 <= i, i < N), z3.And(z3.Implies(e1[i] >= 0, exists(inp, gh, e1[i])), z3.Implies(e2[i] >= 0, exists(inp, gh, e2[i])))))),
        ]
    def carry(inp, gh):
        st, hyps = old["carry"](inp, gh)
        ptr, rowof = inp["p_id_einstandspartner"].arr, gh["rowof"]
        P2 = z3.Int("P2!")
        vu = z3.ForAll([c_, P_, P2], z3.Implies(z3.And(exists(inp, gh, c_), elig(inp, gh, st, c_), par(inp, gh, c_, P_), par(inp, gh, c_, P2), P_ != P2, cores(inp, gh, c_, P_), cores(inp, gh, c_, P2)), ptr[rowof(P_)] == P2))
        return st, [*hyps, vu]
    def b7(inp, gh, st, excl=None):
        fg = st["p_id_to_fg_id"]
        cond = [exists(inp, gh, c_), elig(inp, gh, st, c_), par(inp, gh, c_, P_), cores(inp, gh, c_, P_), fg.dom[P_]]
        if excl is not None:
            cond += [P_ != excl[0], z3.Or(excl[1] < 0, P_ != excl[1])]
        return z3.ForAll([c_, P_], z3.Implies(z3.And(*cond), z3.And(fg.dom[c_], fg.val[c_] == fg.val[P_])))
    def inv(inp, gh, st, k):
        return old["inv"](inp, gh, st, k) + [("B7 an eligible child has the id of every co-resident parent that has an id", b7(inp, gh, st))]
    def inner_inv(inp, gh, st_entry, st, t, lst):
        fg, nxt = st["p_id_to_fg_id"], st["next_fg_id"]
        me, partner, cur = st_entry["current_p_id"], st_entry["current_p_id_einstandspartner"], st_entry["current_hh_id"]
        ix = st["p_id_to_index"]
        m = z3.Int("m!")
        e = z3.Select(lst.arr, m)
        return old["inner_inv"](inp, gh, st_entry, st, t, lst) + [
            ("C9 the eligible co-resident children visited so far have the id of the unit being opened",
             z3.ForAll([m], z3.Implies(z3.And(0 <= m, m < t, inp["hh_id"].arr[ix.val[e]] == cur, elig(inp, gh, st, e)), z3.And(fg.dom[e], fg.val[e] == nxt)))),
            ("C10 B7 for parents other than the opener and the opener's partner", b7(inp, gh, st, (me, partner))),
            ("C11 the opener and the partner hold the id being opened", z3.And(fg.dom[me], fg.val[me] == nxt, z3.Implies(partner >= 0, z3.And(fg.dom[partner], fg.val[partner] == nxt)))),
        ]
    def post(inp, gh, st):
        N, p, e1, e2, hh, rowof = inp["N"], inp["p_id"].arr, inp["p_id_elternteil_1"].arr, inp["p_id_elternteil_2"].arr, inp["hh_id"].arr, gh["rowof"]
        Rr = st["__return__"]
        el = lambda r: z3.And(inp["alter"].arr[r] < 25, z3.Not(st["p_id_to_p_ids_children"].dom[p[r]]))
        return old["post"](inp, gh, st) + [
            ("R5 a childless child under 25 has the id of every co-resident parent",
             z3.ForAll([i], z3.Implies(z3.And(0 <= i, i < N, el(i)), z3.And(z3.Implies(z3.And(e1[i] >= 0, hh[rowof(e1[i])] == hh[i]), Rr.arr[i] == Rr.arr[rowof(e1[i])]),
                                                                            z3.Implies(z3.And(e2[i] >= 0, hh[rowof(e2[i])] == hh[i]), Rr.arr[i] == Rr.arr[rowof(e2[i])]))))),
        ]
    return {**old, "pre": pre, "carry": carry, "inv": inv, "inner_inv": inner_inv, "post": post}


KERNELS = {
    "eg_id_numpy": couple_contract("p_id", "p_id_einstandspartner", "p_id_to_eg_id", "next_eg_id"),
    "ehe_id_numpy": couple_contract("p_id", "p_id_ehepartner", "p_id_to_ehe_id", "next_ehe_id"),
    "sn_id_numpy": sn_contract(),
    "bg_id_numpy": bg_contract(),
    "wthh_id_numpy": wthh_contract(),
    "sum_by_p_id": sum_by_p_id_contract(),
    "fg_id_numpy#index": fg_index_contract(),
    "fg_id_numpy#assign": fg_assign_contract(),
    "fg_id_numpy#partners": fg_partners_contract(),
    "fg_id_numpy#children": fg_children_contract(),
}


# state variables each contract refers to, in the order the code initialises them, with their kind;
# used to re-bind the contract by role when the code renames a local (vt/kernels.py)
STATE_VARS = {
    "eg_id_numpy": [("p_id_to_eg_id", "dict"), ("next_eg_id", "int"), ("result", "list")],
    "ehe_id_numpy": [("p_id_to_ehe_id", "dict"), ("next_ehe_id", "int"), ("result", "list")],
    "sn_id_numpy": [("p_id_to_sn_id", "dict"), ("p_id_to_gemeinsam_veranlagt", "dict"), ("next_sn_id", "int"), ("result", "list")],
    "bg_id_numpy": [("counter", "counter"), ("result", "list")],
    "wthh_id_numpy": [("result", "list")],
    "sum_by_p_id": [("out", "arr"), ("map_p_id_to_position", "dict")],
    "fg_id_numpy#index": [("p_id_to_index", "dict"), ("p_id_to_p_ids_children", "dictlist")],
    "fg_id_numpy#assign": [("p_id_to_index", "dict"), ("p_id_to_p_ids_children", "dictlist"), ("p_id_to_fg_id", "dict"), ("next_fg_id", "int")],
    "fg_id_numpy#partners": [("p_id_to_index", "dict"), ("p_id_to_p_ids_children", "dictlist"), ("p_id_to_fg_id", "dict"), ("next_fg_id", "int")],
    "fg_id_numpy#children": [("p_id_to_index", "dict"), ("p_id_to_p_ids_children", "dictlist"), ("p_id_to_fg_id", "dict"), ("next_fg_id", "int")],
}
