#!/bin/sh
# run every claimed quick check on the current tree, validate the evidence files
cd "$(dirname "$0")/.."
[ -z "$(git -C /repo status --porcelain)" ] || { echo "/repo has uncommitted changes"; exit 2; }
IDS=$(.venv/bin/python -c "import json; print(' '.join(c['property_id'] for c in json.load(open('MANIFEST.json'))['checks']))")
for c in ${*:-$IDS}; do
  VERIF_SEED=1 ./check $c --tier quick > /tmp/run_all_$c.log 2>&1; echo "$c exit=$? $(tail -1 /tmp/run_all_$c.log | cut -c1-160)"
done
.venv/bin/python - <<'PY'
import json, jsonschema, glob
man = json.load(open('MANIFEST.json'))
jsonschema.validate(man, json.load(open('/root/.vp/MANIFEST.schema.json')))
sch = json.load(open('/root/.vp/EVIDENCE.schema.json'))
for c in man['checks']:
    p = c['evidence_file']
    try:
        ev = json.load(open(p)); jsonschema.validate(ev, sch)
        cov = ev['coverage']
        ok = True
        if ev['level'] == 'proof' and cov.get('obligations') != cov.get('discharged'):
            ok = False
        if ev['level'] != c['level_claimed']['category']:
            ok = False
        print(c['property_id'], 'evidence', 'OK' if ok else 'MISMATCH', ev['level'], cov.get('obligations'), cov.get('discharged'), 'violations', ev.get('violations'))
    except Exception as e:
        print(c['property_id'], 'evidence INVALID', repr(e)[:200])
PY
