"""C01 -- results do not depend on the order of rows (nor on index labels);
C02 -- unrelated households do not influence each other; relabelling ids changes only labels.
(One module, two entry points: props/C02.py delegates here.)

Deductive ingredients (proved elsewhere or here, listed as obligations of this check):
  D1  every node of the real DAG belongs to a class with an order-free contract:
        scalar rule (pointwise by the numpy.vectorize contract; dtype data-independent: C03),
        group aggregate / pointer aggregate (C11 postconditions quantify over sets of rows defined
        by id equality), grouping kernel (C12 partition postconditions; fg_id bounded-exhaustive over
        ALL row orders <= 4/5 persons), time conversion (pointwise), array rule (join contract)
  D2  SIGN-ONLY use of identifiers (E1 + z3, every date class >= 2015): a scalar rule that receives
        a person pointer / id column depends on it only through `pointer >= 0`:
        for all a, b with (a >= 0) = (b >= 0): rule(.., a, ..) = rule(.., b, ..)
      => relabelling ids cannot change a scalar result, kernels mention ids only under = and >= 0
  D3  injectivity lemmas for derived ids (C12 L1, L2)
The statement about the whole API runs through pandas / dags glue (positional .values, result
assembly) and is a BOUNDED relational contract (level `exploration`):
  C01: simulate(perm(data)) == perm(simulate(data)) on ALL nodes (ids as partitions), all
       permutations for <= 4 rows, seeded permutations beyond, random index labels, float-typed int
       columns, debug on/off
  C02: simulate(A ++ B) restricted to A == simulate(A); consistent injective relabelling of p_id /
       hh_id / pointer columns (incl. non-monotone maps and maps sending someone to 0)
"""
from __future__ import annotations

import inspect
import itertools
import json
import random

import numpy
import pandas as pd
import z3

from contracts import inputs as vin
from vt import apirel, env as venv, facts, par, popgen, rules, solve, symx
from vt.report import Report

POINTERS = popgen.POINTERS


def is_idlike(name):
    return name.startswith("p_id") or (name.endswith("_id"))


def _sign_worker(dates):
    out = {"items": {}, "classes": {}}
    seen = set()
    for d in dates:
        e = venv.Env(d)
        df = facts.DagFacts(e)
        df._fix_aggregate_types()
        cls = {}
        for n in df.dag.nodes:
            k = df.kind.get(n)
            cls[k] = cls.get(k, 0) + 1
            if k == "missing_root":
                out["items"][f"D1 {n} has a class@{d}"] = {"status": "refuted", "detail": "root that is neither input nor function"}
        out["classes"][str(d)] = cls
        for n in df.dag.nodes:
            if df.kind.get(n) != "scalar_rule":
                continue
            f = df.fno[n]
            f0 = inspect.unwrap(f)
            args = [a for a in inspect.signature(f0).parameters if not a.endswith("_params")]
            ids = [a for a in args if is_idlike(a)]
            if not ids:
                continue
            key = (f0.__module__, f0.__qualname__, tuple(ids))
            if key in seen:
                continue
            seen.add(key)
            name = f"D2 {n} ({f0.__qualname__}) uses {ids} only through their sign"
            try:
                s = symx.summarise(f, sym_args={a: df.types.get(a) or "int" for a in args}, conc_args=e.conc_params_for(f), range_bound=rules.RANGE_BOUND)
            except symx.Unsupported as ex:
                out["items"][name + f"@{d}"] = {"status": "unsupported", "detail": str(ex)}
                continue
            if isinstance(s.result, symx.Undefined):
                continue
            try:
                res = symx._b(symx.Executor().truthy(s.result)) if df.types.get(n) == "bool" else symx.real_term(s.result)
            except (symx.Unsupported, symx.InfiniteValue) as ex:
                out["items"][name + f"@{d}"] = {"status": "unsupported", "detail": str(ex)}
                continue
            st = "discharged"
            detail = ""
            for a in ids:
                t, ty = s.args[a]
                t2 = z3.Int(a + "'")
                r2 = z3.substitute(res, (t, t2))
                if is_idlike(n) and df.types.get(n) == "int":
                    # a pointer-valued rule: equivariant (returns the pointer itself) or sign-only
                    r = solve.check([(t >= 0) == (t2 >= 0), res != r2, z3.Not(z3.And(res == z3.ToReal(t), r2 == z3.ToReal(t2)))], 20)
                else:
                    r = solve.check([(t >= 0) == (t2 >= 0), res != r2], 20)
                if r.status == "sat":
                    st = "refuted"
                    detail = f"{a}={r.model.eval(t, model_completion=True)} vs {r.model.eval(t2, model_completion=True)}: different results {rules.model_inputs(r.model, s)}"
                elif r.status != "unsat" and st != "refuted":
                    st = "unknown"
            out["items"][name + f"@{d}"] = {"status": st, "detail": detail}
    return out


def deductive(rep, tier, jobs):
    classes = [c[0] for c in venv.date_classes(since=rules.D2015, until=venv.last_parameter_date())]
    if tier == "quick":
        classes = sorted({d for d in venv.function_set_classes() if d >= rules.D2015} | {rules.D2015})
    items = {}
    for st, job, res in par.pmap(_sign_worker, par.chunks(classes, jobs), jobs):
        if st != "ok":
            raise RuntimeError(res)
        items.update(res["items"])
        rep.extra.setdefault("node_classes", {}).update(res["classes"])
    lost = []
    for k, it in sorted(items.items()):
        rep.ob(k, it["status"], "z3", 0, "", "sign-only", it["detail"])
        if it["status"] == "refuted":
            lost.append((k, it["detail"]))
    a, b, x, y = z3.Ints("a b x y")
    for name, q in {"D3 bg ids: a*100+x = b*100+y, 0<=x,y<100 => a=b, x=y": [a * 100 + x == b * 100 + y, 0 <= x, x < 100, 0 <= y, y < 100, z3.Or(a != b, x != y)],
                    "D3 wthh ids: x,y in {0,1}": [a * 100 + x == b * 100 + y, 0 <= x, x <= 1, 0 <= y, y <= 1, z3.Or(a != b, x != y)]}.items():
        r = solve.check(q, 10)
        rep.ob(name, {"unsat": "discharged", "sat": "refuted"}.get(r.status, "unknown"), r.backend, r.seconds, "src/_gettsim/groupings.py", "lemma")
    # the facts the two lemmas start from (offsets below 100 / in {0,1}, counted per family / household)
    # are postconditions of the kernels: discharged here as well, with the bounded replay as witness
    from props import C12 as c12

    # row-wise evaluation itself: the column of a scalar rule is numpy.vectorize(rule, otypes=[declared])
    # -- no dtype inferred from whichever row comes first, nothing cached across functions (C03's contract)
    from props import C03 as c03

    mode, detail, vfails = c03.vectorize_contract()
    vname = "V _vectorize_func: the function passed in, otypes from the declared type (type objects and strings), pass-through wrapper"
    rep.ob(vname, "discharged" if mode == "B" else "refuted" if (vfails or mode == "A") else "unsupported", "recording-stub", 0, "src/_gettsim/functions_loader.py _vectorize_func", "contract", detail)
    if vfails or mode == "A":
        rep.violation("vectorize-contract", f"_vectorize_func: {detail} -- the dtype of a column then depends on the row that happens to come first (another household's row can truncate a value)", {"obligation": vname, "failures": vfails, "mode": mode}, True)
    # an aggregate reads exactly the members of the group / the rows pointing to the person (C11): the exhaustive
    # run of the real kernels incl. isolation from NaN / inf / huge values in other groups
    from props import C11 as c11

    c11.bounded(rep, "quick")
    c12.recheck_kernel(rep, "bg_id_numpy", "KD", "derived ids of different families can collide or depend on other rows: the needs-unit contract (offset counted per family, below 100) does not hold")
    c12.recheck_kernel(rep, "wthh_id_numpy", "KD", "derived ids of different households can collide: the part-household contract does not hold")
    return lost


# ---------------------------------------------------------------------------------------
def relabel(pop, mapping_p, mapping_h):
    d = pop.copy()
    d["p_id"] = d["p_id"].map(mapping_p)
    d["hh_id"] = d["hh_id"].map(mapping_h)
    for c in POINTERS:
        if c in d.columns:
            d[c] = d[c].map(lambda v: mapping_p[v] if v >= 0 else v)
    return d


def bounded_order(rep, tier, seed):
    rng = random.Random(seed)
    n_eval = 0
    distinct = set()
    bad = []
    dates = ["2023-07-01", "2019-01-01"] if tier == "quick" else [str(d) for d in venv.function_set_classes() if d >= rules.D2015]
    for d in dates:
        e = venv.Env(d)
        year = int(d[:4])
        pops = [popgen.population(k, year=year, seed=seed) for k in (["patchwork"], ["single_parent", "couple"], ["working_children", "single"], ["family", "three_gen", "adult_child"], ["married", "pensioners", "single"])]
        for pi, pop in enumerate(pops):
            nodes = apirel.function_nodes(e, None, list(pop.columns))
            base, _ = apirel.simulate(e, pop, targets=nodes)
            n_eval += 1
            n = len(pop)
            perms = list(itertools.permutations(range(n))) if n <= 4 else [tuple(rng.sample(range(n), n)) for _ in range(6 if tier == "quick" else 20)] + [tuple(reversed(range(n)))]
            for perm in perms:
                p2 = pop.iloc[list(perm)].reset_index(drop=True)
                variant = rng.choice(["plain", "labels", "float-ints", "debug", "dict"])
                kw = {}
                data_in = None
                if variant == "dict":
                    # a dictionary of Series, every column carrying its own permutation of the labels: rows
                    # are matched by position (as in every other step), never by label
                    # (the id / pointer columns share one labelling: the input check compares them with
                    # each other and refuses differently labelled Series loudly)
                    data_in = {}
                    lab0 = rng.sample(range(n), n)
                    for c in p2.columns:
                        lab = lab0 if (c == "p_id" or c.startswith("p_id_")) else rng.sample(range(n), n)
                        data_in[c] = pd.Series(p2[c].to_numpy(), index=lab)
                if variant == "labels":
                    p2.index = rng.sample(range(1000), n)
                elif variant == "float-ints":
                    for c in ("alter", "geburtsjahr", "hh_id"):
                        p2[c] = p2[c].astype(float)
                    p2.index = rng.sample(range(1000), n)
                    kw = {"debug": True}
                elif variant == "debug":
                    p2.index = list(reversed(range(n)))
                    kw = {"debug": True}
                try:
                    res, _ = apirel.simulate(e, p2 if data_in is None else data_in, targets=nodes, **kw)
                except Exception as ex:  # noqa: BLE001
                    bad.append({"what": f"{d}: population {pi} in row order {perm} ({variant}) fails: {ex!r}"[:300], "date": d, "perm": list(perm)})
                    continue
                n_eval += 1
                distinct.add((d, pi, perm, variant))
                if len(res) != n:
                    bad.append({"what": f"{d}: population {pi}, row order {perm} ({variant}): {len(res)} result rows for {n} input rows", "date": d, "perm": list(perm)})
                    continue
                back = res.reset_index(drop=True).iloc[numpy.argsort(perm)].reset_index(drop=True)
                diff = apirel.compare_frames(base, back, nodes, rtol=1e-12, atol=1e-9)
                if variant in ("float-ints", "debug") and "p_id" in res.columns and list(res["p_id"]) != list(p2["p_id"]):
                    diff.append("p_id (debug output not in input order)")
                if diff:
                    bad.append({"what": f"{d}: population {pi} ({list(pop['p_id'])}) in row order {perm} ({variant}): columns {diff[:5]} differ from the permuted baseline", "date": d, "perm": list(perm), "population": pi, "columns": diff[:5]})
    rep.bounded["row_order"] = {"evaluations": n_eval, "distinct_nontrivial": len(distinct), "rule": "per date: five populations (patchwork, single parent + couple, parent with two self-supporting children + single, family + three generations + adult child, married + pensioners + single); ALL row permutations for <= 4 rows, seeded ones beyond; variants: plain / random index labels / float-typed int columns + labels + debug / reversed labels + debug / dict of Series with one label permutation per column; ALL ~320 nodes compared (floats at 1e-12 relative: the order of a floating-point group sum is not part of the contract, A1; derived ids as partitions); distinct = (date, population, permutation, variant)", "failures": [b["what"] for b in bad][:6]}
    return bad, n_eval, len(distinct)


def bounded_separability(rep, tier, seed):
    rng = random.Random(seed)
    n_eval = 0
    distinct = set()
    bad = []
    dates = ["2023-07-01", "2019-01-01"] if tier == "quick" else [str(d) for d in venv.function_set_classes() if d >= rules.D2015]
    kinds = popgen.KINDS
    for d in dates:
        e = venv.Env(d)
        year = int(d[:4])
        for trial in range(5 if tier == "quick" else 16):
            ka = rng.sample(kinds, rng.randint(1, 2))
            kb = rng.sample(kinds, rng.randint(1, 3))
            A = popgen.population(ka, year=year, seed=seed + trial)
            B = popgen.population(kb, year=year, seed=seed + 100 + trial)
            nodes = apirel.function_nodes(e, None, list(A.columns))
            ra, _ = apirel.simulate(e, A, targets=nodes)
            n_eval += 1
            # B with disjoint identifiers, listed BEFORE and interleaved with A
            offp, offh = int(A["p_id"].max()) + 1, int(A["hh_id"].max()) + 1
            mp = {int(p): int(p) + offp for p in B["p_id"]}
            mh = {int(h): int(h) + offh for h in B["hh_id"]}
            B2 = relabel(B, mp, mh)
            for layout in ("B-first", "A-first", "interleaved"):
                if layout == "B-first":
                    AB = pd.concat([B2, A], ignore_index=True)
                elif layout == "A-first":
                    AB = pd.concat([A, B2], ignore_index=True)
                else:
                    AB = pd.concat([A, B2], ignore_index=True).sample(frac=1.0, random_state=seed + trial).reset_index(drop=True)
                rab, _ = apirel.simulate(e, AB, targets=nodes)
                n_eval += 1
                distinct.add((d, trial, layout))
                sub = rab[AB["p_id"].isin(A["p_id"]).to_numpy()].copy()
                sub["__p"] = AB["p_id"][AB["p_id"].isin(A["p_id"])].to_numpy()
                sub = sub.sort_values("__p").drop(columns="__p").reset_index(drop=True)
                ref = ra.copy()
                ref["__p"] = A["p_id"].to_numpy()
                ref = ref.sort_values("__p").drop(columns="__p").reset_index(drop=True)
                diff = apirel.compare_frames(ref, sub, nodes, rtol=1e-12, atol=1e-9)
                if diff:
                    bad.append({"what": f"{d}: households {ka} simulated together with unrelated households {kb} ({layout}): {diff[:5]} differ from simulating them alone", "date": d, "kind": "separability", "A": ka, "B": kb, "layout": layout})
                if layout == "interleaved" and trial < 2:
                    # the same, read the way a user reads debug output: a frame that was sorted without
                    # resetting its index; household A's rows are picked by the p_id column of the result
                    ABs = AB.sort_values(["hh_id", "p_id"], ascending=[False, True])
                    try:
                        rdbg, _ = apirel.simulate(e, ABs, targets=nodes, debug=True)
                        n_eval += 1
                        distinct.add((d, trial, "sorted-index-debug"))
                        sub = rdbg[rdbg["p_id"].isin(A["p_id"]).to_numpy()].sort_values("p_id").reset_index(drop=True)
                        ref2 = ra.copy()
                        ref2["p_id"] = A["p_id"].to_numpy()
                        ref2 = ref2.sort_values("p_id").reset_index(drop=True)
                        diff = apirel.compare_frames(ref2, sub, [n_ for n_ in nodes if n_ in sub.columns], rtol=1e-12, atol=1e-9)
                        if len(sub) != len(A) or diff:
                            bad.append({"what": f"{d}: households {ka} + {kb} in a frame sorted without resetting the index, debug=True: the rows the result shows for the persons of {ka} differ from simulating them alone in {diff[:5]} ({len(sub)} rows for {len(A)} persons)", "date": d, "kind": "separability", "A": ka, "B": kb, "layout": "sorted-index-debug"})
                    except Exception as ex:  # noqa: BLE001
                        bad.append({"what": f"{d}: households {ka} + {kb}, sorted frame, debug=True: call fails {ex!r}"[:300], "date": d, "kind": "separability", "A": ka, "B": kb, "layout": "sorted-index-debug"})
            # relabelling (non-monotone, somebody becomes 0, big gaps)
            ps = [int(p) for p in A["p_id"]]
            for style in ["reverse", "shuffle-with-zero", "gaps"] + [f"rotate-{k}" for k in range(1, len(ps))]:
                if style.startswith("rotate-"):
                    k = int(style.split("-")[1])
                    order = sorted(ps)
                    mp2 = {p: (i - k) % len(order) for i, p in enumerate(order)}  # every person becomes 0 once
                elif style == "reverse":
                    mp2 = {p: max(ps) - p for p in ps}
                elif style == "gaps":
                    mp2 = {p: 1000 + 37 * ((p * 7) % 11) + p for p in ps}
                else:
                    sh = rng.sample(range(0, 3 * len(ps)), len(ps))
                    sh[rng.randrange(len(ps))] = 0 if 0 not in sh else sh[0]
                    sh = list(dict.fromkeys(sh))
                    while len(sh) < len(ps):
                        sh.append(max(sh) + 1)
                    mp2 = dict(zip(ps, sh))
                hs = sorted({int(h) for h in A["hh_id"]})
                mh2 = {h: (len(hs) - i) * 5 for i, h in enumerate(hs)}
                R = relabel(A, mp2, mh2)
                rr, _ = apirel.simulate(e, R, targets=nodes)
                n_eval += 1
                distinct.add((d, trial, style))
                cols = [c for c in nodes if not (c.startswith("p_id") or c == "hh_id")]
                diff = apirel.compare_frames(ra, rr, cols, rtol=1e-12, atol=1e-9)
                # pointer-valued outputs must follow the relabelling
                for c in [c for c in nodes if c.startswith("p_id")]:
                    want = [mp2[int(v)] if v >= 0 else int(v) for v in ra[c]]
                    if list(rr[c]) != want:
                        diff.append(c)
                if diff:
                    bad.append({"what": f"{d}: relabelling p_id {mp2} / hh_id {mh2} of households {ka} changes {diff[:5]}", "date": d, "kind": "relabel", "A": ka, "style": style})
    rep.bounded["separability"] = {"evaluations": n_eval, "distinct_nontrivial": len(distinct), "rule": "per date: random pairs (A, B) of household sets from the family of DESIGN 7.0, B relabelled to disjoint ids and placed before / after / interleaved with A: all nodes of A's rows compared with simulate(A) (floats at 1e-12 relative) (derived ids as partitions); relabellings of A: reversal, shuffle with a person mapped to 0, gaps, and every rotation (each person becomes p_id 0 once); distinct = (date, trial, layout/style)", "failures": [b["what"] for b in bad][:6]}
    return bad, n_eval, len(distinct)


def replay(path):
    print(open(path).read()[:3000])
    return 0


def run(tier="quick", seed=0, jobs=16, which="C01"):
    rep = Report(which, tier, seed, "exploration")
    rep.assumptions = ["numpy.vectorize applies the rule row by row (trusted); kernel postconditions are those of C11 / C12 (proved there; fg_id_numpy bounded-exhaustive over all row orders)",
                       "the API-level statement is explored on seeded populations (all permutations up to 4 rows), not proved: interface.py takes `.values` positionally and assembles results positionally",
                       vin.describe()]
    lost = deductive(rep, tier, jobs)
    if which == "C01":
        bad, n_eval, n_dist = bounded_order(rep, tier, seed)
        rule = rep.bounded["row_order"]["rule"]
    else:
        bad, n_eval, n_dist = bounded_separability(rep, tier, seed)
        rule = rep.bounded["separability"]["rule"]
    for k, detail in lost[:5]:
        rep.violation(k.split("@")[0], f"{k}: {detail}", {"obligation": k, "detail": detail}, False)
    seen = set()
    for b in bad:
        key = f"{b.get('kind', 'row-order')}:{','.join(b.get('columns', [])[:2]) or b['what'][11:60]}"
        if key in seen:
            continue
        seen.add(key)
        rep.violation(key, b["what"], b, True)
    n, dd = rep.counts()
    rep.samples = [{"case": rule[:200]}] + rep.obligations[:2]
    return rep.finish({"evaluations": n_eval, "distinct_nontrivial": n_dist, "rule": rule, "deductive_obligations": n, "deductive_discharged": dd})
