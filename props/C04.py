"""C04 -- a column's value is independent of which other targets are requested.

Deductive part (E3): every node function is pure, so by the `dags` contract (each ancestor of the
targets evaluated once from its ancestors' values) the value of a node is a function of its
ancestors' values only. What binds a FUNCTION to a NAME does depend on `targets` and on the data
columns (automatic group sums, overriding columns) -- pandas / string / dict glue outside the
reach of the contracts. That part is a BOUNDED relational contract on the real API and the
level claimed is therefore `exploration`:
  T  value(t | targets = S) == value(t | S') for S, S' containing t: singletons vs. the default
     list vs. all nodes, sets that force / do not force an automatic <x>_<group> sum
  X  additional unused data columns change nothing -- including the trap columns named like the
     base of an existing group-level function (x for a function x_<group>) or like another time
     unit of an existing function (x_y for a function x_m)
  O  debug in {False, True}, check_minimal_specification in {ignore, warn} change no value
  S  shape: one row per input row, in input order (also for non-default / shuffled index labels),
     columns == requested targets (ids first)
"""
from __future__ import annotations

import json
import random
import warnings

import numpy
import pandas as pd

from vt import apirel, env as venv, frame, popgen
from vt.report import Report


def purity_lemma(rep):
    an = frame.Analyzer(str(venv.SRC))
    pref = ("_gettsim.taxes", "_gettsim.transfers", "_gettsim.social_insurance_contributions", "_gettsim.demographic_vars", "_gettsim.groupings", "_gettsim.aggregation_numpy", "_gettsim.time_conversion")
    n, bad = 0, []
    for (m, q), eff in an.effects.items():
        if not m.startswith(pref) or ".<locals>." in q or q == "_add_grouping_suffixes_to_keys":
            continue
        n += 1
        w = [x for x in eff.writes if not x.startswith("outer:")]
        if w or eff.unknown_calls:
            bad.append((f"{m}.{q}", w, sorted(eff.unknown_calls)))
    rep.extra["purity_lemma"] = {"functions": n, "impure": bad[:5], "backend": "E3"}
    return n, bad


def bounded(rep, tier, seed):
    from _gettsim.config import DEFAULT_TARGETS, SUPPORTED_GROUPINGS
    from _gettsim.shared import remove_group_suffix

    rng = random.Random(seed)
    n_eval = 0
    n_traps = 0
    distinct = set()
    bad = []
    dates = ["2023-07-01", "2017-01-01"] if tier == "quick" else ["2015-01-01", "2017-01-01", "2019-07-01", "2021-01-01", "2023-07-01", "2024-01-01"]
    for d in dates:
        e = venv.Env(d)
        year = int(d[:4])
        pop = popgen.population(["family", "single_parent", "pensioners", "couple"], year=year, seed=seed)
        nodes = apirel.function_nodes(e, None, list(pop.columns))
        allv, _ = apirel.simulate(e, pop, targets=nodes)
        n_eval += 1
        defaults = [t for t in DEFAULT_TARGETS if t in allv.columns]
        dflt, _ = apirel.simulate(e, pop, targets=defaults)
        n_eval += 1
        diff = apirel.compare_frames(allv, dflt, defaults)
        if diff:
            bad.append(f"{d}: default targets differ between targets=default and targets=all nodes: {diff[:5]}")
        # T: singletons and random subsets
        sample = nodes if tier != "quick" else rng.sample(nodes, min(40, len(nodes)))
        for t in sample:
            try:
                r1, _ = apirel.simulate(e, pop, targets=[t])
            except Exception as ex:  # noqa: BLE001
                bad.append(f"{d}: targets=[{t}] fails although it is computable with all targets: {ex!r}"[:300])
                continue
            n_eval += 1
            distinct.add((d, "single", t))
            if apirel.compare_frames(allv, r1, [t]):
                bad.append(f"{d}: value of {t} differs between targets=[{t}] and targets=all nodes")
            if list(r1.columns) != [t] and not (apirel.is_id(t) or t == "p_id"):
                bad.append(f"{d}: targets=[{t}] returns columns {list(r1.columns)}")
        for _ in range(6 if tier == "quick" else 30):
            S = rng.sample(nodes, rng.randint(2, 12))
            r, _ = apirel.simulate(e, pop, targets=S)
            n_eval += 1
            distinct.add((d, "subset", tuple(sorted(S))))
            diff = apirel.compare_frames(allv, r, S)
            if diff:
                bad.append(f"{d}: targets={S}: {diff[:4]} differ from the all-nodes run")
            if set(r.columns) != set(S):
                bad.append(f"{d}: targets={S}: returned columns {sorted(set(r.columns) ^ set(S))} differ from the request")
            ids = [c for c in r.columns if c.endswith("_id")]
            if ids and list(r.columns[: len(ids)]) != ids:
                bad.append(f"{d}: id columns are not first: {list(r.columns)}")
            if len(r) != len(pop):
                bad.append(f"{d}: {len(r)} rows for {len(pop)} input rows")
        # X: unused extra columns, incl. trap names (base names of group-level functions)
        fno, _ = e.universe(None, list(pop.columns))
        traps = []
        for n_ in nodes:
            b = remove_group_suffix(n_)
            if b != n_ and b not in fno and b not in pop.columns:
                traps.append(b)
        # ... and names that are another time unit of an existing function (x_y for a function x_m):
        # the conversion derived from such a column must not replace the function
        import re

        from _gettsim.config import SUPPORTED_GROUPINGS as _G

        tu = re.compile(r"(?P<base>.*_)(?P<unit>[ymwd])(?P<agg>(" + "|".join(f"_{g}" for g in _G) + "))?")
        dag_d = e.dag(targets=defaults, data_cols=list(pop.columns))
        for n_ in nodes:
            m_ = tu.fullmatch(n_)
            # only hard-coded rules: for a derived node the sibling column legitimately replaces the derivation;
            # only siblings nobody reads in the graph of the requested targets: they are unused
            if not m_ or n_ not in dag_d or venv.classify_node(n_, fno[n_]) not in ("scalar_rule", "array_rule"):
                continue
            sibs = [f"{m_['base']}{u}{m_['agg'] or ''}" for u in "ymwd" if u != m_["unit"]]
            # if any other unit of the quantity is read in the graph, a supplied sibling feeds it (C05 / C13): used
            if any(x in dag_d or x in pop.columns for x in sibs):
                continue
            for sib in sibs:
                if sib not in fno or venv.classify_node(sib, fno[sib]) == "time_conversion":
                    traps.append(sib)
                    break
        traps = sorted(set(traps))
        n_traps += len(traps)
        extra = pop.copy()
        extra["verif_unused_column"] = numpy.arange(len(pop)) * 1.5
        for b in traps:
            extra[b] = 17.0
        try:
            rx, _ = apirel.simulate(e, extra, targets=defaults)
            n_eval += 1
            distinct.add((d, "extra-columns", len(traps)))
            diff = apirel.compare_frames(dflt, rx, defaults)
            if diff:
                # locate one offending trap column
                culprit = None
                for b in traps:
                    one = pop.copy()
                    one[b] = 17.0
                    r1, _ = apirel.simulate(e, one, targets=defaults)
                    n_eval += 1
                    if apirel.compare_frames(dflt, r1, defaults):
                        culprit = b
                        break
                bad.append(f"{d}: unused extra data columns change results {diff[:4]} (e.g. column {culprit!r})")
        except Exception as ex:  # noqa: BLE001
            bad.append(f"{d}: unused extra data columns make the call fail: {ex!r}"[:300])
        # R: a rounded user rule with an offset (in the shipped parameters only 2001-2003 carry one),
        # requested several times from ONE environment with different target sets / options
        from _gettsim.shared import policy_info

        @policy_info(params_key_for_rounding="verif_grp")
        def verif_rounded_m(bruttolohn_m: float) -> float:
            return bruttolohn_m * 0.37

        # ... and a user rule whose name merely ends in _id (not one of the grouping identifiers)
        def verif_payer_id(bruttolohn_m: float) -> float:
            return bruttolohn_m + 1.0

        p_user = dict(e.params)
        p_user["verif_grp"] = {"rounding": {"verif_rounded_m": {"base": 1, "direction": "up", "to_add_after_rounding": 7}}}
        f_user = [*([e.functions] if isinstance(e.functions, dict) else list(e.functions)), verif_rounded_m, verif_payer_id]
        for kw in ({}, {"debug": True}):
            try:
                r, _ = apirel.simulate(e, pop, targets=["verif_payer_id", defaults[0]], functions=f_user, params=p_user, **kw)
                n_eval += 1
                distinct.add((d, "user-target-named-_id", json.dumps(kw)))
                if "verif_payer_id" not in r.columns or not numpy.array_equal(r["verif_payer_id"].to_numpy(), pop["bruttolohn_m"].to_numpy() + 1.0):
                    bad.append(f"{d}: requested user target verif_payer_id {kw}: returned columns {list(r.columns)[:8]} -- the target is missing or wrong")
            except Exception as ex:  # noqa: BLE001
                bad.append(f"{d}: user target verif_payer_id {kw}: call fails: {ex!r}"[:300])
        want_r = numpy.ceil(pop["bruttolohn_m"].to_numpy() * 0.37) + 7
        for tg, kw in ((["verif_rounded_m"], {}), (["verif_rounded_m", defaults[0]], {}), (["verif_rounded_m"], {"debug": True}), ([defaults[-1], "verif_rounded_m"], {})):
            try:
                r, _ = apirel.simulate(e, pop, targets=tg, functions=f_user, params=p_user, **kw)
                n_eval += 1
                distinct.add((d, "rounded-user-rule", tuple(tg), json.dumps(kw)))
                if not numpy.array_equal(r["verif_rounded_m"].to_numpy(), want_r):
                    bad.append(f"{d}: rounded user rule (base 1, up, +7) requested with targets={tg} {kw} on a reused environment: {r['verif_rounded_m'].tolist()[:3]}.. instead of {want_r.tolist()[:3]}..")
            except Exception as ex:  # noqa: BLE001
                bad.append(f"{d}: rounded user rule with targets={tg} {kw}: call fails: {ex!r}"[:300])
        # O: options
        for kw in ({"debug": True}, {"check_minimal_specification": "warn"}, {"debug": True, "check_minimal_specification": "warn"}):
            r, _ = apirel.simulate(e, pop, targets=defaults, **kw)
            n_eval += 1
            distinct.add((d, "options", json.dumps(kw)))
            diff = apirel.compare_frames(dflt, r, defaults)
            if diff:
                bad.append(f"{d}: options {kw} change {diff[:4]}")
            if len(r) != len(pop):
                bad.append(f"{d}: options {kw}: {len(r)} rows for {len(pop)} input rows")
        # S: index labels; the last variant also has its rows in an order that is not sorted by household
        # and person (the result must follow the INPUT order, also in debug mode)
        for labels in (list(range(100, 100 + len(pop))), list(reversed(range(len(pop)))), [f"r{i}" for i in range(len(pop))], "unsorted-rows"):
            p2 = pop.copy()
            if labels == "unsorted-rows":
                order = list(range(len(pop)))
                random.Random(seed + 5).shuffle(order)
                p2 = pop.iloc[order].reset_index(drop=True)
                for kw in ({}, {"debug": True}):
                    try:
                        r, _ = apirel.simulate(e, p2, targets=defaults, **kw)
                    except Exception as ex:  # noqa: BLE001
                        bad.append(f"{d}: rows in unsorted order {kw}: call fails: {ex!r}"[:300])
                        continue
                    n_eval += 1
                    distinct.add((d, "unsorted-rows", json.dumps(kw)))
                    back = r.reset_index(drop=True).iloc[numpy.argsort(order)].reset_index(drop=True) if len(r) == len(pop) else r
                    diff = apirel.compare_frames(dflt, back, defaults, rtol=1e-12, atol=1e-9) if len(r) == len(pop) else ["row count"]
                    if diff:
                        bad.append(f"{d}: rows not sorted by household / person {kw}: the result does not follow the input order (or values changed) in {diff[:4]}")
                    if kw.get("debug") and "p_id" in r.columns and list(r["p_id"]) != list(p2["p_id"]):
                        bad.append(f"{d}: rows not sorted by household / person, debug=True: the p_id column of the result is {list(r['p_id'])[:6]}.., the input order is {list(p2['p_id'])[:6]}..")
                continue
            p2.index = labels
            if labels[0] == 100:
                for c in ("alter", "geburtsjahr"):
                    p2[c] = p2[c].astype(float)  # converted columns must keep the row order, too
            for kw in ({}, {"debug": True}):
                try:
                    r, _ = apirel.simulate(e, p2, targets=defaults, **kw)
                except Exception as ex:  # noqa: BLE001
                    bad.append(f"{d}: index labels {labels[:3]}.. {kw}: call fails: {ex!r}"[:300])
                    continue
                n_eval += 1
                distinct.add((d, "index", str(labels[:2]), json.dumps(kw)))
                if len(r) != len(pop):
                    bad.append(f"{d}: index labels {labels[:3]}.. {kw}: {len(r)} rows for {len(pop)} input rows")
                    continue
                diff = apirel.compare_frames(dflt, r.reset_index(drop=True), defaults)
                if diff:
                    bad.append(f"{d}: index labels {labels[:3]}.. {kw}: rows no longer in input order / values changed in {diff[:4]}")
                if kw.get("debug") and "p_id" in r.columns and list(r["p_id"]) != list(pop["p_id"]):
                    bad.append(f"{d}: index labels {labels[:3]}.. debug=True: input columns are not in input order")
    rep.bounded["target_independence"] = {"evaluations": n_eval, "distinct_nontrivial": len(distinct), "trap_columns": n_traps, "rule": "per date: singleton targets (sampled / all nodes), random target subsets, default vs all nodes; extra unused columns incl. base names of group-level functions and other time units of hard-coded rules none of whose units is otherwise read; debug / check_minimal_specification; three index labellings x debug; bit-for-bit comparison; distinct = (date, kind, detail)", "failures": bad[:8]}
    return bad, n_eval, len(distinct)


def replay(path):
    print(open(path).read()[:3000])
    return 0


def run(tier="quick", seed=0, jobs=16):
    rep = Report("C04", tier, seed, "exploration")
    rep.assumptions = ["dags.concatenate_functions / create_dag contract: every ancestor of the targets is evaluated exactly once from its ancestors' values",
                       "purity of all node functions is proved by E3 (lemma); the binding of functions to names under different target sets / data columns is explored, not proved"]
    n, impure = purity_lemma(rep)
    # which function is bound to a group-level name for every presence pattern of explicit function /
    # built-in spec / user spec / base column (function or data) / request kind: exhaustive contract
    # on the real _create_aggregate_by_group_functions (shared with C11)
    from props import C11 as c11

    c11.precedence(rep)
    bad, n_eval, n_dist = bounded(rep, tier, seed)
    for i, b in enumerate(impure[:3]):
        rep.violation(f"impure:{b[0]}", f"node function {b[0]} is not pure: writes {b[1]} unknown calls {b[2]}", {"function": b[0]}, False)
    for i, b in enumerate(bad[:8]):
        rep.violation(f"target-independence:{i}:{b[:60]}", b, {"what": b}, True)
    rep.samples = [{"case": "targets=[t] vs targets=all nodes, t sampled"}, {"case": "extra unused columns named like the base of group-level functions"}, {"case": "index labels 100.., reversed, strings; debug True/False"}]
    cov = {"evaluations": n_eval, "distinct_nontrivial": n_dist, "rule": rep.bounded["target_independence"]["rule"], "purity_lemma_functions": n}
    return rep.finish(cov)
