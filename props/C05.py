"""C05 -- supplying a computed column as data is equivalent to computing it.

Deductive part: node functions are pure (E3, lemma); by C03 a column produced by the system has its
declared dtype (so no conversion touches it when it is supplied back); derived nodes are not
created for names present in the data (guards in create_time_conversion_functions /
_create_aggregate_by_p_id_functions, checked on the real functions over all names). The
substitution property itself runs through the pandas / dict glue of interface.py and is a
BOUNDED relational contract (level `exploration`):
  S  for node n of the real DAG (quick: stratified sample, thorough: all):
     simulate(data + {n: simulate(data)[n]}) == simulate(data) on all default targets
  W  the overriding column is announced by FunctionsAndColumnsOverlapWarning naming n
  U  the supplied column is USED: supplying n + delta changes n's own value in the output (when n
     is a target) / at least one dependent target, or the call refuses loudly -- never silently
     ignored
  D  data as DataFrame and as dict of Series (with a differently indexed supplied column)
  G  guards: no derived time-unit / pointer-aggregate function is created for a name that is a
     data column
"""
from __future__ import annotations

import json
import random
import warnings

import networkx as nx
import numpy
import pandas as pd

from vt import apirel, env as venv, frame, popgen
from vt.report import Report


def guards(rep, tier):
    """G: derived nodes are not created for names present in the data (real functions)"""
    from _gettsim import time_conversion as tc
    from _gettsim.functions_loader import _create_aggregate_by_p_id_functions

    bad = []
    n = 0
    for d in venv.function_set_classes()[-3:]:
        e = venv.Env(d)
        fs = e.functions
        names = list(fs)
        # every derived time-unit name in turn supplied as a data column
        derived = tc.create_time_conversion_functions(fs, [])
        for nm in list(derived)[:: (7 if tier == "quick" else 1)]:
            n += 1
            out = tc.create_time_conversion_functions(fs, [nm])
            if nm in out:
                bad.append(f"{d}: time-unit function {nm} is created although {nm} is a data column")
        byp = _create_aggregate_by_p_id_functions(fs, {}, [])
        n += len(byp)
    rep.extra["guards"] = {"names_checked": n, "failures": bad[:5]}
    return bad, n


def bounded(rep, tier, seed):
    from _gettsim.config import DEFAULT_TARGETS
    from _gettsim.interface import FunctionsAndColumnsOverlapWarning
    from _gettsim.shared import remove_group_suffix

    rng = random.Random(seed)
    n_eval = 0
    distinct = set()
    bad = []
    dates = ["2023-07-01"] if tier == "quick" else ["2015-01-01", "2019-07-01", "2023-07-01"]
    runs = []
    for d in dates:
        runs.append((d, "base", popgen.population(["family", "single_parent", "pensioners"], year=int(d[:4]), seed=seed)))
        # a household that falls into TWO wohngeldrechtliche Teilhaushalte (the priority flags of its two
        # Bedarfsgemeinschaften are supplied and differ): wthh-level columns are not constant within hh_id
        mixed = popgen.population(["three_gen", "couple"], year=int(d[:4]), seed=seed)
        flag = (mixed["hh_id"] == 0) & (mixed["alter"] >= 60)
        mixed["wohngeld_vorrang_bg"] = flag.to_numpy()
        mixed["wohngeld_kinderzuschl_vorrang_bg"] = flag.to_numpy()
        runs.append((d, "mixed", mixed))
    for d, kind_, pop in runs:
        e = venv.Env(d)
        nodes = apirel.function_nodes(e, None, list(pop.columns))
        allv, _ = apirel.simulate(e, pop, targets=nodes)
        defaults = [t for t in DEFAULT_TARGETS if t in allv.columns]
        base, _ = apirel.simulate(e, pop, targets=defaults)
        dag = e.dag(data_cols=list(pop.columns))
        dag_all = e.dag(targets=nodes, data_cols=list(pop.columns))
        desc_all = {n_: {x for x in nx.descendants(dag_all, n_) if x in allv.columns and allv[x].dtype != object} for n_ in nodes if n_ in dag_all}
        fno, _ = e.universe(None, list(pop.columns))
        n_eval += 2
        by_class = {}
        for n_ in nodes:
            by_class.setdefault(venv.classify_node(n_, fno[n_]), []).append(n_)
        if kind_ == "mixed":
            w = allv["wthh_id"] if "wthh_id" in allv.columns else None
            if w is None or pd.Series(w.to_numpy()).groupby(pop["hh_id"].to_numpy()).nunique().max() < 2:
                bad.append({"what": f"{d}: the mixed-household population has no household with two wthh (vacuous)", "node": "wthh_id", "date": d, "kind": "vacuity"})
            sample = [n_ for n_ in nodes if n_.endswith("_wthh") or n_ == "wthh_id"]
        elif tier == "quick":
            sample = []
            for cls, lst in by_class.items():
                sample += rng.sample(lst, min(len(lst), 8 if cls == "scalar_rule" else 5))
            sample += [t for t in defaults if t not in sample][:6]
            sample += [n_ for n_ in nodes if allv[n_].dtype.kind == "M" and n_ not in sample]  # date-valued nodes always
        else:
            sample = nodes
        for n_ in sample:
            col = allv[n_]
            if col.dtype == object:
                continue
            for form in ("frame", "dict"):
                if form == "frame":
                    data = pop.copy()
                    data[n_] = col.to_numpy()
                else:
                    shuffled = pop.copy()
                    shuffled.index = list(reversed(range(len(pop))))
                    data = {c: shuffled[c] for c in shuffled.columns}
                    data[n_] = pd.Series(col.to_numpy())  # RangeIndex: entries do not share one index
                if form == "dict" and tier == "quick" and rng.random() < 0.6 and remove_group_suffix(n_) == n_:
                    continue
                # every default target and every column computed FROM the supplied one (the statement is
                # about all targets, not only the default list)
                tg = sorted((set(defaults) | (desc_all.get(n_) or set())) - {n_})
                try:
                    res, w = apirel.simulate(e, data, targets=tg)
                except Exception as ex:  # noqa: BLE001
                    bad.append({"what": f"{d}: supplying the computed column {n_} ({form}) makes the call fail: {ex!r}"[:300], "node": n_, "date": d})
                    continue
                n_eval += 1
                distinct.add((d, n_, form))
                diff = apirel.compare_frames(allv, res, tg, rtol=1e-12, atol=1e-9)
                if diff:
                    bad.append({"what": f"{d}: supplying {n_} with the values the system computes ({form} input) changes {diff[:4]}", "node": n_, "date": d, "form": form})
                anc_of_targets = any(n_ == t or n_ in nx.ancestors(dag, t) for t in tg if t in dag)
                names_warned = " ".join(str(x.message) for x in w if issubclass(x.category, FunctionsAndColumnsOverlapWarning))
                # a derived time-unit node is not created at all when its name is a data column, so there
                # is no rule to override and no warning is due
                if n_ not in names_warned and venv.classify_node(n_, fno[n_]) != "time_conversion":
                    bad.append({"what": f"{d}: supplying {n_} (overrides a {venv.classify_node(n_, fno[n_])}) is not announced by FunctionsAndColumnsOverlapWarning", "node": n_, "date": d, "kind": "warning"})
            # date-valued nodes: the same values in every resolution pandas can hold
            if col.dtype.kind == "M":
                for unit in ("ns", "us", "ms", "s"):
                    data = pop.copy()
                    data[n_] = pd.Series(col.to_numpy()).astype(f"datetime64[{unit}]").to_numpy()
                    tg = sorted((set(defaults) | (desc_all.get(n_) or set())) - {n_})
                    try:
                        res, w = apirel.simulate(e, data, targets=tg)
                    except Exception as ex:  # noqa: BLE001
                        bad.append({"what": f"{d}: supplying the computed column {n_} as datetime64[{unit}] makes the call fail: {ex!r}"[:300], "node": n_, "date": d})
                        continue
                    n_eval += 1
                    distinct.add((d, n_, f"datetime64[{unit}]"))
                    diff = apirel.compare_frames(allv, res, tg, rtol=1e-12, atol=1e-9)
                    if diff:
                        bad.append({"what": f"{d}: supplying {n_} with the values the system computes, stored as datetime64[{unit}], changes {diff[:4]}", "node": n_, "date": d, "form": f"datetime64[{unit}]"})
            # U: the supplied values are used, not silently ignored
            if col.dtype.kind in "fi" and not n_.endswith("_id"):
                data = pop.copy()
                data[n_] = col.to_numpy() + (1 if col.dtype.kind == "i" else 1.0)
                desc = nx.descendants(dag, n_)
                dep_targets = [t for t in defaults if t in desc]
                tg = sorted(set(dep_targets + ([n_] if n_ in defaults else [])))
                if tg:
                    try:
                        res, w = apirel.simulate(e, data, targets=tg)
                        n_eval += 1
                        if n_ in tg and not apirel.same(res[n_].to_numpy(), data[n_].to_numpy(), 0, 1e-9):
                            bad.append({"what": f"{d}: {n_} supplied as data AND requested as target: the output holds the rule's values, the supplied column was silently ignored", "node": n_, "date": d, "kind": "ignored"})
                    except Exception:  # noqa: BLE001
                        pass  # a loud refusal is allowed
    rep.bounded["substitution"] = {"evaluations": n_eval, "distinct_nontrivial": len(distinct), "rule": "per date: node n (stratified sample by node class / all) supplied with the values the system computes, as DataFrame and as dict of Series with differing indexes; default targets compared at 1e-12 relative; overlap warning must name n; supplied values + 1 must show up when n is also a target; distinct = (date, node, input form)", "failures": [b["what"] for b in bad][:8]}
    return bad, n_eval, len(distinct)


def replay(path):
    print(open(path).read()[:3000])
    return 0


def run(tier="quick", seed=0, jobs=16):
    rep = Report("C05", tier, seed, "exploration")
    rep.assumptions = ["purity of node functions (E3) and dtype = declared type (C03) are proved elsewhere; the substitution property through interface.py is explored on seeded populations, not proved",
                       "values re-derived through another time unit may differ in the last float bits: comparison at 1e-12 relative / 1e-9 absolute on the default targets"]
    gbad, gn = guards(rep, tier)
    from props import C11 as c11

    c11.annotation_table(rep)  # declared type of every aggregate = GEP-4 table (36 obligations)
    c11.array_rules(rep)  # AR-T: declared element type of the array rules = what they return (a supplied column is converted by it)
    bad, n_eval, n_dist = bounded(rep, tier, seed)
    for b in gbad[:3]:
        rep.violation(f"guard:{b[:80]}", b, {"what": b}, True)
    seen = set()
    for b in bad:
        key = f"{b.get('kind', 'substitution')}:{b.get('node')}"
        if key in seen:
            continue
        seen.add(key)
        rep.violation(key, b["what"], b, True)
    rep.samples = [{"case": "simulate(data + {n: simulate(data)[n]}) vs simulate(data), n over the node classes"}, {"case": "dict of Series with a reversed index + supplied column with RangeIndex"}]
    return rep.finish({"evaluations": n_eval + gn, "distinct_nontrivial": n_dist, "rule": rep.bounded["substitution"]["rule"]})
