#!/usr/bin/env python3
"""Write the table of seeded changes (seeded/<id>/meta.json + detect.json) into DESIGN.md between
the markers <!-- SEEDTABLE:BEGIN --> and <!-- SEEDTABLE:END -->."""
import json
import os
import re

HERE = os.path.dirname(os.path.dirname(os.path.abspath(__file__)))
SEEDED = os.path.join(HERE, "seeded")


def main():
    rows = ["| change | needs, to manifest | reported by (quick tier: exit code, VIOLATION lines, of which without failing input) |", "|---|---|---|"]
    n = det = 0
    for i in sorted(os.listdir(SEEDED)):
        d = os.path.join(SEEDED, i)
        if not os.path.exists(os.path.join(d, "patch.diff")):
            continue
        meta = json.load(open(os.path.join(d, "meta.json"))) if os.path.exists(os.path.join(d, "meta.json")) else {}
        dj = json.load(open(os.path.join(d, "detect.json"))) if os.path.exists(os.path.join(d, "detect.json")) else {}
        n += 1
        cells = []
        hit = False
        for c, v in dj.items():
            if v.get("exit") == 1 and v.get("violations"):
                hit = True
                cells.append(f"**{c}**: exit 1, {v['violations']} ({v.get('no_failing_input', 0)})")
            else:
                cells.append(f"{c}: exit {v.get('exit')}, {v.get('violations')}")
        det += hit
        what = re.sub(r"\s+", " ", meta.get("needs_to_manifest", "")).replace("|", "/")
        rows.append(f"| {i} | {what} | {'; '.join(cells) or 'not scanned'} |")
    rows.append("")
    rows.append(f"{det} of {n} seeded changes are reported by the quick check of their property.")
    p = os.path.join(HERE, "DESIGN.md")
    s = open(p).read()
    block = "<!-- SEEDTABLE:BEGIN -->\n" + "\n".join(rows) + "\n<!-- SEEDTABLE:END -->"
    if "<!-- SEEDTABLE:BEGIN -->" in s:
        s = re.sub(r"<!-- SEEDTABLE:BEGIN -->.*?<!-- SEEDTABLE:END -->", lambda m: block, s, flags=re.S)
    else:
        s = s.replace("\nSEEDTABLE\n", "\n" + block + "\n")
    open(p, "w").write(s)
    print(f"{det}/{n}")


if __name__ == "__main__":
    main()
