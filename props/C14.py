"""C14 -- simulation is pure, deterministic and independent of process history.

Deciding part: frame contracts checked by E3 (vt/frame.py) on the real ASTs of src/_gettsim,
callee effects used modularly (fix-point over the call graph):
  FT  compute_taxes_and_transfers assigns nothing reachable from data, params, functions, the
      spec dictionaries or targets, and no module-level state
  FE  set_up_policy_environment / load_functions_for_date / load_and_check_functions and the
      other loader entry points write no module-level state and none of their arguments
  FR  every policy rule, kernel (groupings, aggregation, join, piecewise_polynomial), converter:
      writes nothing at all
  FV  make_vectorizable: fresh objects only (func.__globals__ may be read, never written / exec'd into)
  G   global-state census: the only writers of module-level objects are import-time decoration
      (policy_info) and the documented back-end switch set_array_backend
  M   no memoisation (lru_cache / cache) anywhere: a cached mutable result is hidden state
  D   determinism census: no random / time / uuid / os.environ / id() / hash() in the package,
      no iteration over an unordered set that reaches a value without sorted()
  U   no call of an unknown (non-listed) library function in the functions under contract
Bounded stand-in (never counted as proved):
  H   seeded histories of API calls (set up d1, simulate, reform, rewrite a rule into array form,
      set up d2, ...): deep snapshots of all arguments before / after every call, repeated calls
      equal, and each result equal to the same call in a fresh interpreter.
"""
from __future__ import annotations

import ast
import copy
import json
import pickle
import subprocess
import sys
import warnings

import numpy
import pandas as pd

from vt import env as venv
from vt import frame, popgen
from vt.report import ASSUMPTIONS, Report

ENTRY = {
    "FT": [("_gettsim.interface", "compute_taxes_and_transfers")],
    "FE": [("_gettsim.policy_environment", "set_up_policy_environment"), ("_gettsim.policy_environment", "load_functions_for_date"), ("_gettsim.policy_environment", "_load_parameter_group_from_yaml"),
           ("_gettsim.functions_loader", "load_and_check_functions"), ("_gettsim.functions_loader", "load_internal_functions"), ("_gettsim.functions_loader", "load_user_and_internal_functions"), ("_gettsim.functions_loader", "load_aggregation_dict"),
           ("_gettsim.interface", "set_up_dag"), ("_gettsim.time_conversion", "create_time_conversion_functions")],
    "FV": [("_gettsim.vectorization", "make_vectorizable"), ("_gettsim.vectorization", "make_vectorizable_source"), ("_gettsim.vectorization", "_make_vectorizable_ast")],
}
RULE_PREFIXES = ("_gettsim.taxes", "_gettsim.transfers", "_gettsim.social_insurance_contributions", "_gettsim.demographic_vars")
KERNEL_MODULES = ("_gettsim.groupings", "_gettsim.aggregation_numpy", "_gettsim.aggregation", "_gettsim.piecewise_functions", "_gettsim.time_conversion", "_gettsim.gettsim_typing")
ALLOWED_GLOBAL_WRITERS = {("_gettsim.shared", "policy_info"), ("_gettsim.shared", "policy_info.<locals>.inner"), ("_gettsim.config", "set_array_backend")}
IMPORT_TIME_HELPERS = {("_gettsim.demographic_vars", "_add_grouping_suffixes_to_keys")}


def sites(eff, loc):
    return [f"line {ln}: {txt}" for l_, ln, txt in eff.write_sites if l_ == loc][:3]


def frame_obligations(rep, an):
    def bad_writes(eff, allow_params=()):
        out = []
        for w in sorted(eff.writes):
            if w.startswith("outer:") or w == "fresh":
                continue
            if w.startswith("param:") and w[6:] in allow_params:
                continue
            out.append(w)
        return out

    for tag, lst in ENTRY.items():
        for key in lst:
            if key not in an.effects:
                rep.ob(f"{tag} {key[1]}: function exists", "unsupported", "E3", 0, key[0], "frame", "not found (renamed?)")
                continue
            eff = an.effects[key]
            rep.functions.add(f"{an.modules[key[0]].path.relative_to(venv.REPO)}:{eff.lineno} {key[1]}")
            bw = bad_writes(eff)
            name = f"{tag} {key[1]} assigns nothing outside fresh objects"
            detail = "; ".join(f"{w} ({', '.join(sites(eff, w))})" for w in bw)
            if "unknown" in bw:
                rep.ob(name, "unknown", "E3", 0, key[0], "frame", detail)
            else:
                rep.ob(name, "refuted" if bw else "discharged", "E3", 0, key[0], "frame", detail)
            if bw and "unknown" not in bw:
                rep._frame_violations.append((f"{key[1]}:writes:{'+'.join(bw)}", f"{key[1]} may modify {detail}", key, bw))
            unk = sorted(u for u in eff.unknown_calls)
            rep.ob(f"U {key[1]} calls only functions under contract or on the pure list", "unknown" if unk else "discharged", "E3", 0, key[0], "frame", "; ".join(unk[:6]))
    # FR
    n_rules = 0
    for key, eff in sorted(an.effects.items()):
        modname, q = key
        if not (modname.startswith(RULE_PREFIXES) or modname in KERNEL_MODULES or key == ("_gettsim.shared", "join_numpy")):
            continue
        if key in IMPORT_TIME_HELPERS or ".<locals>." in q:
            continue
        n_rules += 1
        bw = bad_writes(eff)
        if bw or eff.unknown_calls:
            st = "unknown" if ("unknown" in bw or eff.unknown_calls) and not [w for w in bw if w != "unknown"] else "refuted"
            detail = "; ".join(f"{w} ({', '.join(sites(eff, w))})" for w in bw) + (" unknown calls: " + ", ".join(sorted(eff.unknown_calls)[:4]) if eff.unknown_calls else "")
            rep.ob(f"FR {modname.split('.')[-1]}.{q} is pure", st, "E3", 0, modname, "frame", detail)
            if st == "refuted":
                rep._frame_violations.append((f"{q}:writes:{'+'.join(bw)}", f"{modname}.{q} may modify {detail}", key, bw))
    rep.add_counts(n_rules - len([o for o in rep.obligations if o["name"].startswith("FR ")]), "E3", 0.0, "FR pure rules / kernels")
    # G
    writers = {}
    for key, eff in an.effects.items():
        for w in eff.writes:
            if w.startswith("global:"):
                writers.setdefault(w, set()).add(key)
    bad = {w: sorted(k for k in ks if k not in ALLOWED_GLOBAL_WRITERS) for w, ks in writers.items()}
    bad = {w: ks for w, ks in bad.items() if ks}
    rep.ob("G module-level state is written only by import-time decoration (policy_info) and set_array_backend", "refuted" if bad else "discharged", "E3", 0, "src/_gettsim", "census", json.dumps({w: [f"{a}:{b}" for a, b in ks] for w, ks in bad.items()})[:400])
    for w, ks in bad.items():
        for k in ks[:2]:
            rep._frame_violations.append((f"global-write:{w}:{k[1]}", f"{k[0]}.{k[1]} writes module-level state {w} ({', '.join(sites(an.effects[k], w))})", k, [w]))
    rep.extra["module_level_state"] = sorted(writers)
    # M
    memo = [(k, e.memo) for k, e in an.effects.items() if e.memo]
    rep.ob("M no memoising decorator (hidden module state)", "refuted" if memo else "discharged", "E3", 0, "src/_gettsim", "census", str([(f"{k[0]}:{k[1]}", m) for k, m in memo])[:300])
    for k, m in memo:
        rep._frame_violations.append((f"memo:{k[1]}", f"{k[0]}.{k[1]} is memoised ({m}): its (mutable) result is shared between calls", k, ["memo"]))


def determinism_census(rep, an):
    bad = []
    for mname, m in an.modules.items():
        for n in ast.walk(m.tree):
            if isinstance(n, ast.Call):
                d = frame.dotted(n.func) or ""
                head = d.split(".")[0]
                tgt = m.imports.get(head, head)
                full = tgt + d[len(head):]
                if full.startswith(("random.", "numpy.random", "time.", "uuid.", "secrets.")) or full in ("id", "hash") or full.endswith((".now", ".today", ".utcnow")) or "os.environ" in full or full.startswith("os.getenv"):
                    bad.append(f"{mname}:{n.lineno} {d}")
            if isinstance(n, (ast.For, ast.comprehension)):
                it = n.iter
                if isinstance(it, ast.Call) and (frame.dotted(it.func) or "") in ("set", "frozenset"):
                    bad.append(f"{mname}:{getattr(n, 'lineno', it.lineno)} iteration over {ast.unparse(it)[:40]}")
                if isinstance(it, (ast.Set, ast.SetComp)):
                    bad.append(f"{mname}:{it.lineno} iteration over a set literal")
    rep.ob("D no source of non-determinism (random, time, uuid, environment, id/hash, iteration over a set) in the package", "refuted" if bad else "discharged", "E3", 0, "src/_gettsim", "census", "; ".join(bad[:6]))
    for b in bad[:4]:
        rep._frame_violations.append((f"nondeterminism:{b}", f"possible non-determinism: {b}", None, []))


# ---------------------------------------------------------------------------------------
# replays / bounded histories
# ---------------------------------------------------------------------------------------
def _snap(obj):
    if isinstance(obj, pd.DataFrame):
        return ("df", tuple(obj.columns), tuple(_snap(obj[c]) for c in obj.columns), tuple(obj.index))
    if isinstance(obj, pd.Series):
        return ("s", obj.name, tuple(obj.tolist()), str(obj.dtype), tuple(obj.index))
    if isinstance(obj, dict):
        return ("d", tuple((k, _snap(v)) for k, v in obj.items()))
    if isinstance(obj, (list, tuple)):
        return ("l", tuple(_snap(v) for v in obj))
    if isinstance(obj, numpy.ndarray):
        return ("a", obj.tobytes(), str(obj.dtype))
    if callable(obj):
        return ("f", id(obj), tuple(sorted((getattr(obj, "__info__", None) or {}).items(), key=str)).__repr__())
    try:
        hash(obj)
        return obj
    except TypeError:
        return repr(obj)


HISTORY = r"""
import sys, json, pickle, warnings, copy
warnings.filterwarnings('ignore')
sys.path.insert(0, '/verif')
import numpy, pandas as pd
from vt import env as venv, popgen
from props.C14 import _snap
from _gettsim.interface import compute_taxes_and_transfers
from _gettsim.policy_environment import set_up_policy_environment
from _gettsim.vectorization import make_vectorizable

steps = json.loads(sys.argv[1])
out = []
envs = {}
for i, st in enumerate(steps):
    kind = st['kind']
    if kind == 'env':
        envs[st['date']] = set_up_policy_environment(st['date'])
        out.append({'i': i, 'kind': kind, 'ok': True})
    elif kind == 'vectorize':
        params, functions = envs[st['date']]
        f = functions[st['name']]
        try:
            make_vectorizable(f, 'numpy')
        except Exception as ex:
            pass
        out.append({'i': i, 'kind': kind, 'ok': True})
    elif kind == 'simulate':
        params, functions = envs[st['date']]
        data = popgen.population(st['kinds'], year=int(st['date'][:4]), seed=st.get('seed', 0))
        if st.get('as_dict'):
            data = {c: data[c].astype(float) if (st.get('float_ints') and str(data[c].dtype).startswith('int') and c not in ('p_id',)) else data[c] for c in data.columns}
        if st.get('reform'):
            params = copy.deepcopy(params)
            g, k, factor = st['reform']
            for kk, vv in list(params[g].items()):
                if isinstance(vv, (int, float)) and not isinstance(vv, bool):
                    params[g][kk] = vv * factor
        b = (_snap(data), _snap(params), _snap(functions))
        res = compute_taxes_and_transfers(data=data, params=params, functions=functions, targets=st.get('targets'), rounding=st.get('rounding', True))
        a = (_snap(data), _snap(params), _snap(functions))
        out.append({'i': i, 'kind': kind, 'args_unchanged': [x == y for x, y in zip(b, a)], 'result': pickle.dumps(res.to_dict('list')).hex()})
print('RESULT' + json.dumps(out))
"""


def run_history(steps):
    p = subprocess.run([sys.executable, "-c", HISTORY, json.dumps(steps)], capture_output=True, text=True, timeout=1200)
    for line in p.stdout.splitlines():
        if line.startswith("RESULT"):
            return json.loads(line[6:])
    raise RuntimeError(p.stderr[-800:])


def histories(seed):
    T1 = ["eink_st_y_sn", "arbeitsl_geld_2_m_bg", "kindergeld_m", "wohngeld_m_wthh"]
    T2 = ["zu_verst_eink_y_sn", "eink_st_y_sn"]
    T3 = ["ges_rente_m", "sozialv_beitr_arbeitnehmer_m"]
    sim_a = {"kind": "simulate", "date": "2023-01-01", "kinds": ["family", "single"], "targets": T1}
    sim_b = {"kind": "simulate", "date": "2002-06-01", "kinds": ["married", "single"], "targets": T2}
    sim_c = {"kind": "simulate", "date": "2019-07-01", "kinds": ["pensioners", "single_parent"], "targets": T3, "as_dict": True, "float_ints": True}
    return [
        [{"kind": "env", "date": "2023-01-01"}, sim_a, {"kind": "env", "date": "2002-06-01"}, sim_b, sim_b, {"kind": "env", "date": "2019-07-01"}, sim_c, sim_c,
         {"kind": "vectorize", "date": "2023-01-01", "name": "arbeitsl_geld_2_m_bg"}, {"kind": "vectorize", "date": "2023-01-01", "name": "kindergeld_anspruch"},
         {**sim_a, "reform": ["arbeitsl_geld_2", None, 1.1]}, {"kind": "env", "date": "2023-01-01"}, sim_a,
         {**sim_a, "rounding": False}, sim_a],
    ]


def bounded_histories(rep, seed):
    n_eval = 0
    distinct = set()
    bad = []
    for h in histories(seed):
        try:
            full = run_history(h)
        except Exception as ex:  # noqa: BLE001
            bad.append({"what": f"history crashed: {ex!r}"[:400]})
            continue
        sims = [(i, st) for i, st in enumerate(h) if st["kind"] == "simulate"]
        for i, st in sims:
            r = full[i]
            n_eval += 1
            distinct.add(json.dumps(st, sort_keys=True))
            names = ["data", "params", "functions"]
            for nm, ok in zip(names, r["args_unchanged"]):
                if not ok:
                    bad.append({"what": f"step {i} ({st['date']}, targets {st.get('targets')}): the caller's {nm} was modified by compute_taxes_and_transfers", "history": h[: i + 1], "kind": "argument-modified"})
            # the same call in a fresh interpreter
            alone = run_history([{"kind": "env", "date": st["date"]}, st])
            n_eval += 1
            if alone[1]["result"] != r["result"]:
                a, b = pickle.loads(bytes.fromhex(alone[1]["result"])), pickle.loads(bytes.fromhex(r["result"]))
                diff = {k: (a[k], b[k]) for k in a if a[k] != b.get(k)}
                bad.append({"what": f"step {i} ({st['date']}): result differs from the same call in a fresh interpreter: {str(diff)[:300]}", "history": h[: i + 1], "kind": "history-dependence"})
    rep.bounded["api_histories"] = {"evaluations": n_eval, "distinct_nontrivial": len(distinct), "rule": "seeded sequences of set-up / simulate (DataFrame and dict-of-Series data, float-typed int columns) / reform / make_vectorizable / repeated calls; each simulate step: deep snapshot of data, params, functions before and after, and bit-for-bit comparison with the same call in a fresh interpreter; distinct = distinct simulate steps", "failures": [b["what"] for b in bad][:5]}
    return bad


def replay(path):
    rp = json.loads(open(path).read())
    if "history" in rp:
        full = run_history(rp["history"])
        last = full[-1]
        print(json.dumps({"args_unchanged(data,params,functions)": last.get("args_unchanged")}, indent=1))
        return 1 if not all(last.get("args_unchanged", [True])) else 0
    print(json.dumps(rp, indent=1)[:3000])
    return 0


def run(tier="quick", seed=0, jobs=16):
    rep = Report("C14", tier, seed, "proof")
    rep._frame_violations = []
    rep.assumptions = ["E3 is a conservative syntactic may-alias / effect checker (flow-sensitive per function, fix-point over the call graph), not a separation-logic proof",
                       "library calls on the pure list (numpy, pandas, dags, copy, functools, inspect, yaml, re, textwrap, importlib, ast, astor) have no effect on their arguments or on module state; methods named like container mutators are treated as writes",
                       "no monkey-patching of the package between calls; the JAX back end (aggregation_jax, USE_JAX) is out of scope",
                       "determinism of numpy / pandas / dags themselves", ASSUMPTIONS["T"]]
    rep.trusted = ["vt/frame.py abstract domain (param / global / fresh / unknown; self + 2-level reach)", "CPython semantics of assignment and argument passing"]
    an = frame.Analyzer(str(venv.SRC))
    frame_obligations(rep, an)
    determinism_census(rep, an)
    bad = bounded_histories(rep, seed)
    # verdicts
    hist_kinds = {b.get("kind") for b in bad}
    for key, what, fkey, locs in rep._frame_violations:
        found = False
        rp = {"obligation": key, "what": what}
        if any(l_.startswith("param:") for l_ in locs) and "argument-modified" in hist_kinds:
            ex = [b for b in bad if b.get("kind") == "argument-modified"][0]
            rp["history"] = ex["history"]
            rp["observed"] = ex["what"]
            found = True
        if (any(l_.startswith("global:") or l_ == "memo" for l_ in locs)) and "history-dependence" in hist_kinds:
            ex = [b for b in bad if b.get("kind") == "history-dependence"][0]
            rp["history"] = ex["history"]
            rp["observed"] = ex["what"]
            found = True
        rep.violation(key, what, rp, failing_input_found=found)
    if not rep._frame_violations:
        for i, b in enumerate(bad):
            rep.violation(f"history:{b.get('kind', 'crash')}:{i}", b["what"], b, True)
    rep.samples = rep.obligations[:4]
    return rep.finish({"functions_analysed": len(an.effects), "modules_analysed": len(an.modules)})
