"""E3 `frame` -- modular may-alias / effect inference on the ASTs of src/_gettsim (DESIGN.md 2.3).

Abstract locations: param:<name> (the object passed and everything reachable from it),
global:<module>.<name>, fresh, unknown. Locals map to SETS of locations (may-alias,
flow-insensitive, hence sound for any statement order). Effects of a function:
  writes     set of locations it may mutate (stores through Subscript/Attribute, del, mutating
             method calls, out= / inplace=True, exec/eval into a namespace, setattr, global stores)
  ret        locations the result may alias
  memo       memoising decorators (hidden module state)
Calls use the callee's inferred summary (fix-point over the call graph); library callees must be
on the explicit PURE list, otherwise the caller is marked `unknown_calls` (-> undecided, never
silently passed). Reflection (globals(), vars(), __dict__, computed getattr/setattr) is flagged.
This is a conservative syntactic checker, not a separation-logic proof.
"""
from __future__ import annotations

import ast
from pathlib import Path

MUTATORS = {"append", "extend", "update", "pop", "popitem", "clear", "setdefault", "sort", "insert", "remove", "add", "discard", "fill", "put", "reverse", "__setitem__", "__delitem__", "itemset", "resize", "setflags", "drop_duplicates_inplace"}
FRESH_CALLS = {
    "dict", "list", "set", "tuple", "frozenset", "sorted", "str", "int", "float", "bool", "len", "range", "enumerate", "zip", "map", "filter", "sum", "min", "max", "any", "all", "abs", "round",
    "isinstance", "issubclass", "hasattr", "callable", "repr", "format", "type", "id", "hash", "iter", "next", "reversed", "print",
    "copy.deepcopy", "copy.copy", "functools.partial", "functools.reduce", "functools.wraps", "inspect.signature", "inspect.getsource", "inspect.unwrap", "inspect.getmembers", "inspect.isfunction", "inspect.getfile", "inspect.Signature",
    "textwrap.dedent", "textwrap.fill", "re.compile", "warnings.warn", "datetime.date", "datetime.timedelta", "datetime.datetime", "date.fromisoformat",
    "importlib.import_module", "import_module", "importlib.util.spec_from_file_location", "importlib.util.module_from_spec", "importlib.util.find_spec",
    "yaml.load", "Path", "ast.parse", "ast.walk", "ast.iter_child_nodes", "ast.fix_missing_locations", "ast.Call", "ast.Name", "ast.Attribute", "ast.Load", "ast.Return", "compile",
    "astor.code_gen.to_source", "get_args", "Counter", "TypeVar", "getattr", "super",
}
FRESH_PREFIXES = ("numpy_groupies.", "_gettsim.config.numpy_or_jax.", "_gettsim.aggregation_jax.", "numpy.", "np.", "npg.", "pd.", "pandas.", "dags.", "math.", "operator.", "jnp.", "jax.", "segment_", "is_bool_dtype", "is_float_dtype", "is_integer_dtype", "is_object_dtype", "is_datetime64_any_dtype")
PURE_METHODS = {
    "items", "keys", "values", "get", "copy", "astype", "split", "join", "format", "startswith", "endswith", "removesuffix", "replace", "lstrip", "rstrip", "strip", "lower", "upper", "fullmatch", "match", "group",
    "read_text", "rglob", "is_dir", "relative_to", "with_suffix", "as_posix", "resolve", "exists", "round", "take", "all", "any", "sum", "isin", "duplicated", "unique", "groupby", "transform", "loc", "iloc", "to_numpy",
    "date", "total_seconds", "count", "index", "predecessors", "nodes", "parameters", "fromisoformat", "isoformat", "toordinal", "union", "intersection", "difference", "visit", "generic_visit", "exec_module", "tolist", "max", "min", "mean", "reshape", "flatten",
    "at", "set", "add_", "is_unique", "is_integer", "approx", "squeeze", "to_source", "is_file", "name", "mro", "subs", "removeprefix", "title", "encode", "decode", "zfill", "most_common", "elements",
}


class Effects:
    def __init__(self, qual):
        self.qual = qual
        self.writes = set()  # locations
        self.write_sites = []  # (location, lineno, text)
        self.ret = set()
        self.ret_reach = set()
        self.unknown_calls = set()
        self.reflection = []
        self.memo = []
        self.params = []
        self.calls = set()
        self.lineno = 0


class Module:
    def __init__(self, name, path):
        self.name = name
        self.path = path
        self.tree = ast.parse(Path(path).read_text(encoding="utf-8"))
        self.imports = {}  # local name -> dotted target
        self.functions = {}  # qualname -> FunctionDef
        self.globals = set()
        for n in self.tree.body:
            if isinstance(n, ast.Import):
                for a in n.names:
                    self.imports[a.asname or a.name.split(".")[0]] = a.name if a.asname else a.name.split(".")[0]
            elif isinstance(n, ast.ImportFrom):
                for a in n.names:
                    self.imports[a.asname or a.name] = f"{n.module}.{a.name}"
            elif isinstance(n, (ast.Assign, ast.AnnAssign)):
                for t in (n.targets if isinstance(n, ast.Assign) else [n.target]):
                    if isinstance(t, ast.Name):
                        self.globals.add(t.id)
        self._collect(self.tree.body, "")

    def _collect(self, body, prefix):
        for n in body:
            if isinstance(n, ast.FunctionDef):
                q = prefix + n.name
                self.functions[q] = n
                self._collect(n.body, q + ".<locals>.")
            elif isinstance(n, ast.ClassDef):
                self._collect(n.body, prefix + n.name + ".")
            elif isinstance(n, (ast.If, ast.With, ast.Try)):
                self._collect(getattr(n, "body", []), prefix)
                self._collect(getattr(n, "orelse", []), prefix)


def dotted(e):
    if isinstance(e, ast.Name):
        return e.id
    if isinstance(e, ast.Attribute):
        d = dotted(e.value)
        return f"{d}.{e.attr}" if d else None
    return None


class Analyzer:
    def __init__(self, root, skip=("_gettsim_tests", "visualization.py", "synthetic.py", "aggregation_jax.py", "_version.py")):
        self.root = Path(root)
        self.modules = {}
        for p in sorted(self.root.rglob("*.py")):
            if any(s in str(p) for s in skip):
                continue
            rel = p.relative_to(self.root.parent).with_suffix("")
            name = ".".join(rel.parts)
            if name.endswith(".__init__"):
                name = name[: -len(".__init__")]
            self.modules[name] = Module(name, p)
        self.effects = {}
        for mname, m in self.modules.items():
            for q in m.functions:
                self.effects[(mname, q)] = Effects(f"{mname}:{q}")
        self._fixpoint()

    # ---- resolution of a callee expression to (module, qualname) or a dotted library name
    def resolve(self, m, enclosing, func_expr, local_funcs):
        d = dotted(func_expr)
        if d is None:
            return None, None
        head = d.split(".")[0]
        if head in local_funcs:
            return (m.name, local_funcs[head]), d
        if d in m.functions:
            return (m.name, d), d
        if head in m.imports:
            target = m.imports[head] + d[len(head) :]
            parts = target.split(".")
            for cut in range(len(parts) - 1, 0, -1):
                mod, q = ".".join(parts[:cut]), ".".join(parts[cut:])
                if mod in self.modules and q in self.modules[mod].functions:
                    return (mod, q), target
            return None, target
        return None, d

    def _fixpoint(self):
        for _ in range(12):
            changed = False
            for mname, m in self.modules.items():
                for q, node in m.functions.items():
                    if self._analyze(m, q, node):
                        changed = True
            if not changed:
                break

    def _analyze(self, m, q, fn):  # noqa: C901, PLR0912, PLR0915
        """Flow-sensitive walk. Every local maps to a pair (self, reach): `self` = locations the
        object itself may be, `reach` = locations of the objects it may hold references to."""
        eff = self.effects[(m.name, q)]
        before = (frozenset(eff.writes), frozenset(eff.ret), frozenset(eff.ret_reach), frozenset(eff.unknown_calls), len(eff.reflection))
        eff.lineno = fn.lineno
        params = [a.arg for a in fn.args.posonlyargs + fn.args.args + fn.args.kwonlyargs]
        if fn.args.vararg:
            params.append(fn.args.vararg.arg)
        if fn.args.kwarg:
            params.append(fn.args.kwarg.arg)
        eff.params = params
        eff.memo = [dotted(d if not isinstance(d, ast.Call) else d.func) for d in fn.decorator_list if (dotted(d if not isinstance(d, ast.Call) else d.func) or "").split(".")[-1] in ("lru_cache", "cache", "cached_property", "memoize")]
        local_funcs = {}
        prefix = q + ".<locals>."
        for qq in m.functions:
            if qq.startswith(prefix) and "." not in qq[len(prefix) :]:
                local_funcs[qq[len(prefix) :]] = qq
        outer_params = set()
        if ".<locals>." in q:
            oq = q.rsplit(".<locals>.", 1)[0]
            while True:
                if (m.name, oq) in self.effects:
                    outer_params |= set(self.effects[(m.name, oq)].params)
                if ".<locals>." not in oq:
                    break
                oq = oq.rsplit(".<locals>.", 1)[0]
        def _immutable_annotation(a):
            ann = ast.unparse(a.annotation) if a.annotation is not None else ""
            return ann in ("float", "int", "bool", "str") or ann.startswith("numpy.ndarray") or ann.startswith("np.ndarray")

        imm = {a.arg for a in fn.args.posonlyargs + fn.args.args + fn.args.kwonlyargs if _immutable_annotation(a)}
        _all = fn.args.posonlyargs + fn.args.args + fn.args.kwonlyargs
        scalar_rule = (
            m.name.startswith(("_gettsim.taxes", "_gettsim.transfers", "_gettsim.social_insurance_contributions", "_gettsim.demographic_vars"))
            and all((ast.unparse(a.annotation) if a.annotation is not None else "") in ("float", "int", "bool", "dict") for a in _all)
            and "skip_vectorization" not in "".join(ast.unparse(d) for d in fn.decorator_list)
        )
        # `param:p` is the object passed, `param:p.*` stands for everything reachable from it: a callee that
        # writes into an ELEMENT of its argument changes the caller's objects even when the caller passed a
        # fresh container holding them
        env = {p: (({f"param:{p}"}, set(), set()) if p in imm else ({f"param:{p}"}, {f"param:{p}.*"}, {f"param:{p}.*"})) for p in params}
        outer_locals = set()
        if ".<locals>." in q:
            oq2 = q.rsplit(".<locals>.", 1)[0]
            if oq2 in m.functions:
                outer_locals = {n_.id for n_ in ast.walk(m.functions[oq2]) if isinstance(n_, ast.Name) and isinstance(n_.ctx, ast.Store)}
        declared_global = set()
        for n in ast.walk(fn):
            if isinstance(n, (ast.Global, ast.Nonlocal)):
                declared_global |= set(n.names)
        FRESH = ({"fresh"}, set(), set())

        def allr(t3):
            return {r for r in (t3[0] | t3[1] | t3[2]) if r != "fresh"}

        def union(*ts):
            s0, r1, rn = set(), set(), set()
            for p_ in ts:
                s0 |= p_[0]
                r1 |= p_[1]
                rn |= p_[2]
            return (s0 or {"fresh"}, r1, rn)

        def elem(t3):
            """the object obtained by subscripting / attribute access / iteration"""
            return (set(t3[1]) or {"fresh"}, set(t3[2]), set(t3[2]))

        def holding(vals):
            """a fresh container holding the given objects"""
            r1, rn = set(), set()
            for v in vals:
                r1 |= {r for r in v[0] if r != "fresh"}
                rn |= v[1] | v[2]
            return ({"fresh"}, r1, rn)

        def roots(e):  # noqa: C901, PLR0911, PLR0912
            if e is None:
                return FRESH
            if isinstance(e, ast.Name):
                if e.id in env:
                    return (set(env[e.id][0]), set(env[e.id][1]), set(env[e.id][2]))
                if e.id in outer_params:
                    return ({f"outer:{e.id}"}, {f"outer:{e.id}"}, {f"outer:{e.id}"})
                if e.id in m.globals or e.id in declared_global:
                    g = f"global:{m.name}.{e.id}"
                    return ({g}, {g}, {g})
                if e.id in m.imports:
                    tgt = m.imports[e.id]
                    parts = tgt.rsplit(".", 1)
                    if len(parts) == 2 and parts[0] in self.modules and parts[1] in self.modules[parts[0]].globals:
                        return ({f"global:{tgt}"}, {f"global:{tgt}"}, {f"global:{tgt}"})
                return FRESH
            if isinstance(e, (ast.Subscript, ast.Attribute)):
                if isinstance(e, ast.Attribute) and e.attr in ("__globals__", "__dict__"):
                    eff.reflection.append((e.lineno, ast.unparse(e)))
                    b_ = roots(e.value)
                    tag = "reflect:" + ast.unparse(e)
                    return ({tag} | b_[0], b_[1] | {tag}, b_[2] | {tag})
                return elem(roots(e.value))
            if isinstance(e, ast.Starred):
                return roots(e.value)
            if isinstance(e, ast.IfExp):
                return union(roots(e.body), roots(e.orelse))
            if isinstance(e, ast.BoolOp):
                return union(*[roots(v) for v in e.values])
            if isinstance(e, ast.NamedExpr):
                return roots(e.value)
            if isinstance(e, ast.Call):
                return call_roots(e)
            if isinstance(e, (ast.Tuple, ast.List, ast.Set)):
                return holding([roots(x) for x in e.elts])
            if isinstance(e, ast.Dict):
                return holding([roots(x) for x in e.values if x is not None])
            if isinstance(e, (ast.ListComp, ast.SetComp, ast.DictComp, ast.GeneratorExp)):
                for g in e.generators:
                    it = elem(roots(g.iter))
                    for nm in self._names(g.target):
                        env[nm] = elem(it) if isinstance(g.target, (ast.Tuple, ast.List)) else it
                return holding([roots(x) for x in ([e.key, e.value] if isinstance(e, ast.DictComp) else [e.elt])])
            return FRESH

        def call_roots(c):  # noqa: C901, PLR0912
            tgt, name = self.resolve(m, q, c.func, local_funcs)
            argp = [roots(a) for a in c.args] + [roots(k.value) for k in c.keywords]
            allargs = set()
            for p_ in argp:
                allargs |= allr(p_)
            if tgt is not None:
                ce = self.effects[tgt]
                eff.calls.add(tgt)
                amap = self._argmap(ce.params, c, roots)
                s0, r1, rn = set(), set(), set()
                for r in ce.ret:
                    if r.startswith("param:"):
                        deep_ = r.endswith(".*")
                        ap = amap.get(r[6:-2] if deep_ else r[6:])
                        if ap is None:
                            s0.add("fresh")
                        elif deep_:
                            s0 |= (ap[1] | ap[2]) or {"fresh"}
                            r1 |= ap[2]
                            rn |= ap[2]
                        else:
                            s0 |= ap[0]
                            r1 |= ap[1]
                            rn |= ap[2]
                    elif r.startswith("outer:"):
                        s0.add("fresh")
                    else:
                        s0.add(r)
                for r in ce.ret_reach:
                    if r.startswith("param:"):
                        deep_ = r.endswith(".*")
                        ap = amap.get(r[6:-2] if deep_ else r[6:])
                        if ap is not None:
                            r1 |= ({x for x in (ap[1] | ap[2]) if x != "fresh"} if deep_ else allr(ap))
                            rn |= ({x for x in (ap[1] | ap[2]) if x != "fresh"} if deep_ else allr(ap))
                    elif not r.startswith("outer:"):
                        r1.add(r)
                        rn.add(r)
                return (s0 or {"fresh"}, r1, rn)
            if name is not None:
                last = name.split(".")[-1]
                if name in ("copy.deepcopy", "deepcopy") or last == "deepcopy":
                    return FRESH
                if name in ("dict", "list", "tuple", "set", "frozenset", "sorted", "reversed", "iter") and len(argp) >= 1:
                    a0 = argp[0]  # shallow copy: a fresh container with the same elements
                    return ({"fresh"}, set(a0[1]), set(a0[2]))
                if name in ("zip", "enumerate", "map", "filter"):
                    r1 = set()
                    rn = set()
                    for p_ in argp:
                        r1 |= p_[1]
                        rn |= p_[2]
                    return ({"fresh"}, set(), r1 | rn) if name in ("zip", "enumerate") else ({"fresh"}, r1, rn)
                if last in ("partial", "DataFrame", "Series"):
                    return holding(argp)
                if name in FRESH_CALLS or name.startswith(FRESH_PREFIXES) or last in FRESH_CALLS:
                    return FRESH
                if isinstance(c.func, ast.Attribute):
                    base = roots(c.func.value)
                    if last in ("astype", "to_numpy", "tolist", "round", "sum", "all", "any", "isin", "duplicated", "unique", "max", "min", "mean", "split", "join", "format", "replace", "strip", "lstrip", "rstrip", "removesuffix", "startswith", "endswith"):
                        return FRESH
                    if last in ("copy", "keys", "values"):
                        return ({"fresh"}, set(base[1]), set(base[2]))
                    if last == "items":
                        return ({"fresh"}, set(), set(base[1]) | set(base[2]))
                    if last in ("get", "pop", "setdefault", "popitem"):
                        e_ = elem(base)
                        return (e_[0] | {r for p_ in argp[1:] for r in p_[0]}, e_[1], e_[2])
                    if last in PURE_METHODS or last in MUTATORS:
                        return ({"fresh"}, set(base[1]), set(base[2]))
            if isinstance(c.func, ast.Name) and (c.func.id in env or c.func.id in outer_params or c.func.id in outer_locals):
                return holding(argp)
            if isinstance(c.func, ast.Call):
                _, inner_name = self.resolve(m, q, c.func.func, local_funcs)
                if inner_name is not None and inner_name.split(".")[-1] in ("wraps", "update_wrapper") and argp and c.func.args:
                    # functools.wraps(wrapped)(wrapper) returns `wrapper` itself after
                    # wrapper.__dict__.update(wrapped.__dict__): the attribute VALUES of `wrapped`
                    # (e.g. its __info__ dict) are shared, not copied
                    w = roots(c.func.args[0])
                    shared = {r for r in (w[0] | w[1] | w[2]) if r != "fresh"}
                    a0 = argp[0]
                    return (set(a0[0]), set(a0[1]) | shared, set(a0[2]) | shared)
                return holding(argp)
            return ({"unknown"}, {"unknown"} | allargs, {"unknown"} | allargs)

        def write(pair_or_locs, node, text):
            locs = pair_or_locs[0] if isinstance(pair_or_locs, tuple) else pair_or_locs
            for loc in locs:
                if loc == "fresh":
                    continue
                eff.writes.add(loc)
                eff.write_sites.append((loc, getattr(node, "lineno", 0), text))

        def assign(t, pr, node):
            if isinstance(t, ast.Name):
                if t.id in declared_global:
                    write({f"global:{m.name}.{t.id}"}, node, f"global {t.id}")
                env[t.id] = (set(pr[0]), set(pr[1]), set(pr[2]))
            elif isinstance(t, (ast.Tuple, ast.List)):
                inner = elem(pr)
                for e in t.elts:
                    assign(e, inner, node)
            elif isinstance(t, ast.Starred):
                assign(t.value, pr, node)
            elif isinstance(t, (ast.Subscript, ast.Attribute)):
                write(roots(t.value), node, ast.unparse(t)[:60])
                base = t.value
                depth = 0
                while isinstance(base, (ast.Subscript, ast.Attribute)):
                    base = base.value
                    depth += 1
                if isinstance(base, ast.Name) and base.id in env:
                    cur = env[base.id]
                    if depth == 0:
                        env[base.id] = (cur[0], cur[1] | {r for r in pr[0] if r != "fresh"}, cur[2] | pr[1] | pr[2])
                    else:
                        env[base.id] = (cur[0], cur[1], cur[2] | allr(pr))

        def call_effects(n):
            tgt, name = self.resolve(m, q, n.func, local_funcs)
            last = (name or "").split(".")[-1]
            if isinstance(n.func, ast.Attribute) and n.func.attr in MUTATORS:
                write(roots(n.func.value), n, ast.unparse(n)[:60])
                base = n.func.value
                while isinstance(base, (ast.Subscript, ast.Attribute)):
                    base = base.value
                depth = 0
                b2 = n.func.value
                while isinstance(b2, (ast.Subscript, ast.Attribute)):
                    b2 = b2.value
                    depth += 1
                if isinstance(base, ast.Name) and base.id in env:
                    cur = env[base.id]
                    a_self, a_deep = set(), set()
                    for a in n.args:
                        ra = roots(a)
                        a_self |= {r for r in ra[0] if r != "fresh"}
                        a_deep |= ra[1] | ra[2]
                    if depth == 0:
                        env[base.id] = (cur[0], cur[1] | a_self, cur[2] | a_deep)
                    else:
                        env[base.id] = (cur[0], cur[1], cur[2] | a_self | a_deep)
            for k in n.keywords:
                if (k.arg == "inplace" and isinstance(k.value, ast.Constant) and k.value.value is True) and isinstance(n.func, ast.Attribute):
                    write(roots(n.func.value), n, ast.unparse(n)[:60])
                if k.arg == "out":
                    write(roots(k.value), n, ast.unparse(n)[:60])
            if name in ("exec", "eval") and len(n.args) > 1:
                write(roots(n.args[1]), n, ast.unparse(n)[:60])
            if name in ("setattr", "delattr") and n.args:
                write(roots(n.args[0]), n, ast.unparse(n)[:60])
            if name in ("globals", "vars", "locals"):
                eff.reflection.append((n.lineno, ast.unparse(n)))
            if tgt is not None:
                ce = self.effects[tgt]
                eff.calls.add(tgt)
                amap = self._argmap(ce.params, n, roots)
                for w in ce.writes:
                    if w.startswith("param:"):
                        deep_ = w.endswith(".*")
                        ap = amap.get(w[6:-2] if deep_ else w[6:])
                        if ap is not None:
                            write((ap[1] | ap[2]) if deep_ else ap, n, f"via {tgt[1]}({w[6:]})")
                    elif w.startswith("outer:"):
                        pass
                    else:
                        write({w}, n, f"via {tgt[1]}")
                eff.unknown_calls |= {f"{tgt[1]}->{u}" for u in ce.unknown_calls}
            elif name is not None and not (name in FRESH_CALLS or name.startswith(FRESH_PREFIXES) or last in FRESH_CALLS or last in PURE_METHODS or last in MUTATORS or name in ("exec", "eval", "setattr", "delattr")):
                head = name.split(".")[0]
                if isinstance(n.func, ast.Name) and (head in env or head in outer_params or head in outer_locals):
                    pass  # calling a callable parameter / local: the callee is the caller's responsibility
                elif name[0].isupper() or last[0].isupper():
                    pass  # constructors / exception classes
                else:
                    eff.unknown_calls.add(name)

        def visit_expr(e):
            for n in ast.walk(e):
                if isinstance(n, ast.Call):
                    call_effects(n)
                if isinstance(n, ast.NamedExpr):
                    assign(n.target, roots(n.value), n)
                if isinstance(n, (ast.ListComp, ast.SetComp, ast.DictComp, ast.GeneratorExp)):
                    roots(n)

        def merge(a_, b_):
            out = {}
            for k2 in set(a_) | set(b_):
                x, y = a_.get(k2, (set(), set(), set())), b_.get(k2, (set(), set(), set()))
                out[k2] = (set(x[0]) | set(y[0]), set(x[1]) | set(y[1]), set(x[2]) | set(y[2]))
            return out

        def snapshot():
            return {k2: (set(v[0]), set(v[1]), set(v[2])) for k2, v in env.items()}

        def block(stmts):
            """-> True if control cannot fall through the end of the block"""
            for st in stmts:
                stmt(st)
                if isinstance(st, (ast.Return, ast.Raise, ast.Continue, ast.Break)):
                    return True
                if isinstance(st, ast.If) and getattr(st, "_verif_term", False):
                    return True
            return False

        def stmt(st):  # noqa: C901, PLR0912
            nonlocal env
            if isinstance(st, (ast.FunctionDef, ast.AsyncFunctionDef, ast.ClassDef)):
                return
            if isinstance(st, ast.Assign):
                visit_expr(st.value)
                pr = roots(st.value)
                for t in st.targets:
                    assign(t, pr, st)
            elif isinstance(st, ast.AnnAssign):
                if st.value is not None:
                    visit_expr(st.value)
                    assign(st.target, roots(st.value), st)
            elif isinstance(st, ast.AugAssign):
                visit_expr(st.value)
                if isinstance(st.target, (ast.Subscript, ast.Attribute)):
                    write(roots(st.target.value), st, ast.unparse(st.target)[:60])
                elif isinstance(st.target, ast.Name):
                    if st.target.id in declared_global:
                        write({f"global:{m.name}.{st.target.id}"}, st, f"global {st.target.id}")
                    cur = env.get(st.target.id, FRESH)
                    v = roots(st.value)
                    # `x += v` mutates x in place when x is a list / array: a write unless x is
                    # known to be a fresh object
                    if isinstance(st.value, (ast.List, ast.ListComp)) or (isinstance(st.value, ast.Call) and (dotted(st.value.func) or "") in ("list", "sorted")):
                        write(cur, st, ast.unparse(st)[:60])
                    elif not scalar_rule and st.target.id in params and cur[0] == {f"param:{st.target.id}"}:
                        # `arg *= c` on an argument that is an array at run time (converters, kernels and
                        # glue are called with whole columns, whatever the annotation says) mutates the
                        # caller's object; scalar policy rules run under numpy.vectorize on immutable scalars
                        write({f"param:{st.target.id}"}, st, ast.unparse(st)[:60])
                    env[st.target.id] = (set(cur[0]), set(cur[1]) | {r for r in v[0] if r != "fresh"} | v[1], set(cur[2]) | v[1] | v[2])
            elif isinstance(st, ast.Delete):
                for t in st.targets:
                    if isinstance(t, (ast.Subscript, ast.Attribute)):
                        write(roots(t.value), st, "del " + ast.unparse(t)[:50])
            elif isinstance(st, ast.Expr):
                visit_expr(st.value)
            elif isinstance(st, ast.Return):
                if st.value is not None:
                    visit_expr(st.value)
                    pr = roots(st.value)
                    eff.ret |= pr[0]
                    eff.ret_reach |= pr[1] | pr[2]
            elif isinstance(st, ast.If):
                visit_expr(st.test)
                saved = snapshot()
                t1 = block(st.body)
                e1 = env
                env = saved
                t2 = block(st.orelse)
                st._verif_term = t1 and t2
                if t1 and not t2:
                    pass  # only the else branch continues
                elif t2 and not t1:
                    env = e1
                else:
                    env = merge(e1, env)
            elif isinstance(st, (ast.For, ast.While)):
                if isinstance(st, ast.For):
                    visit_expr(st.iter)
                for _ in range(3):
                    saved = snapshot()
                    if isinstance(st, ast.For):
                        inner = elem(roots(st.iter))
                        if isinstance(st.target, (ast.Tuple, ast.List)):
                            for e_ in st.target.elts:
                                assign(e_, elem(inner), st)
                        else:
                            assign(st.target, inner, st)
                    else:
                        visit_expr(st.test)
                    block(st.body)
                    env = merge(saved, env)
                block(st.orelse)
            elif isinstance(st, ast.With):
                for it in st.items:
                    visit_expr(it.context_expr)
                    if it.optional_vars is not None:
                        assign(it.optional_vars, roots(it.context_expr), st)
                block(st.body)
            elif isinstance(st, ast.Try):
                saved = snapshot()
                block(st.body)
                e1 = env
                for h in st.handlers:
                    env = merge(saved, e1)
                    block(h.body)
                    e1 = merge(e1, env)
                env = e1
                block(st.orelse)
                block(st.finalbody)
            elif isinstance(st, (ast.Raise, ast.Assert)):
                for c in ast.iter_child_nodes(st):
                    if isinstance(c, ast.expr):
                        visit_expr(c)

        block(fn.body)
        for lf in local_funcs.values():
            ce = self.effects[(m.name, lf)]
            for w in ce.writes:
                if w.startswith("outer:"):
                    p_ = w[6:]
                    if p_ in env:
                        write(env[p_], fn, f"closure {lf} writes {p_}")
                    elif p_ in outer_params:
                        write({w}, fn, f"closure {lf} writes {p_}")
                elif not w.startswith("param:"):
                    write({w}, fn, f"closure {lf}")
        after = (frozenset(eff.writes), frozenset(eff.ret), frozenset(eff.ret_reach), frozenset(eff.unknown_calls), len(eff.reflection))
        return before != after

    @staticmethod
    def _own_nodes(fn):
        """nodes of fn excluding nested function / class bodies"""
        stack = list(fn.body)
        while stack:
            n = stack.pop()
            yield n
            for c in ast.iter_child_nodes(n):
                if isinstance(c, (ast.FunctionDef, ast.AsyncFunctionDef, ast.ClassDef, ast.Lambda)):
                    continue
                stack.append(c)

    @staticmethod
    def _names(t):
        if isinstance(t, ast.Name):
            return [t.id]
        if isinstance(t, (ast.Tuple, ast.List)):
            out = []
            for e in t.elts:
                out.extend(Analyzer._names(e))
            return out
        if isinstance(t, ast.Starred):
            return Analyzer._names(t.value)
        return []

    @staticmethod
    def _argmap(params, call, roots):
        amap = {}
        pos = [p for p in params]

        def put(name, pr):
            if name in amap:
                amap[name] = (amap[name][0] | pr[0], amap[name][1] | pr[1], amap[name][2] | pr[2])
            else:
                amap[name] = (set(pr[0]), set(pr[1]), set(pr[2]))

        for i, a in enumerate(call.args):
            if isinstance(a, ast.Starred):
                continue
            if i < len(pos):
                put(pos[i], roots(a))
        for k in call.keywords:
            if k.arg is not None:
                put(k.arg, roots(k.value))
        return amap
