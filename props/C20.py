"""C20 -- malformed input data are rejected, and type coercion is lossless.

Committed route (DESIGN.md 7 C20): FAULT ENUMERATION on the real API -- every fault class of the
statement injected at every eligible row / column of each base population, plus pairs of faults:
the call must raise; every lossless dtype variant leaves all results unchanged and warns.
Proved pieces:
  P  the input checks _fail_if_pid_is_non_unique / _fail_if_foreign_keys_are_invalid /
     _fail_if_group_variables_not_constant_within_groups by abstract execution with pandas
     operations replaced by their contracts: "returns normally iff every documented condition
     holds" for every mode (each pointer column x {dangling, self-reference}, every grouping);
     _process_and_check_data calls all of them (call graph)
  K  sn_id_numpy: E2 verification conditions incl. the exceptional postcondition (normal return
     => all spouses agree on gemeinsam_veranlagt; ValueError => the current row and its spouse
     disagree), unbounded N, both row orders (re-discharged here; also part of C12)
  T  convert_series_to_internal_type on adversarial values: the conversion either preserves
     every value exactly or raises ValueError -- float->int at magnitudes 1 .. 2^52 with
     fractional parts, integral floats at and beyond +-2^63, inf, NaN, {0,1}->bool, object columns, int->float (bounded enumeration)
"""
from __future__ import annotations

import itertools
import json
import warnings

import numpy
import pandas as pd

from props import C12 as c12
from vt import apirel, env as venv, kernels, popgen
from vt.report import Report


STATEMENT_POINTERS = ["p_id_ehepartner", "p_id_einstandspartner", "p_id_elternteil_1", "p_id_elternteil_2"]


def kernel_part(rep):
    lost = []
    try:
        vcs, info = kernels.verification_conditions("sn_id_numpy")
        for oname, status, backend, secs, reason in kernels.discharge(vcs, 30):
            if status != "discharged":
                lost.append((oname, status))
        rep.extra["sn_id_vcs"] = {"obligations": len(vcs), "lost": lost, "backend": "z3"}
    except kernels.Unsupported as ex:
        lost.append(("binding", str(ex)))
        rep.extra["sn_id_vcs"] = {"unsupported": str(ex)}
    ne, nd, bad = c12._bounded_couples(4)
    bad = [b for b in bad if b["kernel"] == "sn_id_numpy"]
    return lost, bad, ne


def check_function_contracts(rep):
    """P: the input checks of interface.py by abstract execution: pandas operations are replaced by
    their contracts (is_unique, isin, all, any, groupby.transform('max')), the truth of each
    recorded term is chosen by a mode; obligation: the function returns normally exactly in the
    mode in which every documented condition holds, and it asks exactly the documented terms."""
    from _gettsim import interface
    from _gettsim.config import FOREIGN_KEYS as _FK, SUPPORTED_GROUPINGS
    from vt.absnp import S, Elements

    # the pointer columns named in the property statement (spouse, partner, parents) are required
    # whatever the package's own list says; anything else on that list is checked as well
    FOREIGN_KEYS = [*STATEMENT_POINTERS, *[k for k in _FK if k not in STATEMENT_POINTERS]]

    out = []

    def run(fn, data):
        try:
            fn(data)
            return "returned"
        except ValueError:
            return "ValueError"
        except Exception as ex:  # noqa: BLE001
            return type(ex).__name__

    # ---- _fail_if_pid_is_non_unique
    log = []
    r_ok = run(interface._fail_if_pid_is_non_unique, {"p_id": S("p_id", {("is_unique", "p_id"): True}, log)})
    r_dup = run(interface._fail_if_pid_is_non_unique, {"p_id": S("p_id", {("is_unique", "p_id"): False}, [])})
    r_missing = run(interface._fail_if_pid_is_non_unique, {"hh_id": S("hh_id", {}, [])})
    ok = r_ok == "returned" and r_dup == "ValueError" and r_missing == "ValueError" and ("is_unique", "p_id") in log
    out.append(("P _fail_if_pid_is_non_unique returns normally iff p_id is present and p_id.is_unique", ok, f"{r_ok}/{r_dup}/{r_missing}, asked {log}"))
    # ---- _fail_if_foreign_keys_are_invalid
    want_ids = frozenset({Elements("p_id"), -1})
    for present in ([], FOREIGN_KEYS[:1], FOREIGN_KEYS):
        for bad_fk in [None, *present]:
            for bad_kind in ("dangling", "self"):
                if bad_fk is None and bad_kind == "self":
                    continue
                modes = {}
                for fk in present:
                    modes[("all", ("isin", fk, want_ids))] = not (fk == bad_fk and bad_kind == "dangling")
                    modes[("any", ("eq", fk, "p_id"))] = fk == bad_fk and bad_kind == "self"
                # any other term asked evaluates to "everything fine" only if it is one of the documented ones
                log = []
                data = {"p_id": S("p_id", modes, log), **{fk: S(fk, modes, log) for fk in present}}
                r = run(interface._fail_if_foreign_keys_are_invalid, data)
                expected = "returned" if bad_fk is None else "ValueError"
                undocumented = [t for t in log if t not in modes]
                ok = r == expected and not undocumented and (bad_fk is not None or all(k in log for k in modes))
                out.append((f"P _fail_if_foreign_keys_are_invalid [{len(present)} pointer columns, fault: {bad_fk} {bad_kind if bad_fk else ''}] -> {expected}", ok, f"got {r}; asked {log[:4]}; undocumented {undocumented[:2]}"))
    # ---- _fail_if_group_variables_not_constant_within_groups
    for g in SUPPORTED_GROUPINGS:
        for const in (True, False):
            log = []
            # rows are matched BY POSITION (the id column enters as plain values): a label-aligned
            # grouping would accept a varying column whose Series carries permuted labels
            key = ("all", ("eq", ("group_transform", f"x_{g}", ("values", f"{g}_id"), "max"), f"x_{g}"))
            modes = {key: const}
            data = {f"{g}_id": S(f"{g}_id", modes, log), f"x_{g}": S(f"x_{g}", modes, log), "y": S("y", modes, log)}
            r = run(interface._fail_if_group_variables_not_constant_within_groups, data)
            expected = "returned" if const else "ValueError"
            ok = r == expected and key in log and all(t == key for t in log)
            out.append((f"P _fail_if_group_variables_not_constant_within_groups [{g}, column constant within group: {const}] -> {expected}", ok, f"got {r}; asked {log[:3]}"))
    # ---- _process_and_check_data calls all three on every accepted input kind (E3 call graph)
    from vt import frame

    an = frame.Analyzer(str(venv.SRC))
    eff = an.effects.get(("_gettsim.interface", "_process_and_check_data"))
    callees = {c[1] for c in eff.calls} if eff else set()
    need = {"_fail_if_group_variables_not_constant_within_groups", "_fail_if_pid_is_non_unique", "_fail_if_foreign_keys_are_invalid", "_fail_if_duplicates_in_columns"}
    out.append(("P _process_and_check_data calls the four input checks", need <= callees, f"calls {sorted(callees)}"))
    for name, ok, detail in out:
        rep.ob(name, "discharged" if ok else "refuted", "abstract-exec", 0, "src/_gettsim/interface.py:427-510", "check-contract", detail)
    rep.functions |= {"src/_gettsim/interface.py:468 _fail_if_pid_is_non_unique", "src/_gettsim/interface.py:482 _fail_if_foreign_keys_are_invalid", "src/_gettsim/interface.py:436 _fail_if_group_variables_not_constant_within_groups", "src/_gettsim/interface.py:204 _process_and_check_data"}
    return [o for o in out if not o[1]]


def conversion_part(rep):
    from _gettsim.gettsim_typing import convert_series_to_internal_type

    n = 0
    bad = []

    def attempt(series, ty):
        try:
            out = convert_series_to_internal_type(series, ty)
            return out, None
        except ValueError as ex:
            return None, "ValueError"
        except Exception as ex:  # noqa: BLE001
            return None, type(ex).__name__

    mags = [1, 1000, 200000, 30000000, 2**40, 2**52]
    for m in mags:
        for frac in (0.5, 0.25, 0.0):
            if m + frac != float(m) + frac or (frac and float(m) + frac == float(m)):
                continue
            s = pd.Series([float(m), float(m) + frac, 3.0])
            out, err = attempt(s, int)
            n += 1
            if frac == 0.0:
                if err or out.tolist() != [m, m, 3] or out.dtype.kind != "i":
                    bad.append(f"float {s.tolist()} -> int: expected a lossless conversion, got {err or out.tolist()}")
            elif err != "ValueError":
                bad.append(f"float column {s.tolist()} converted to int {None if out is None else out.tolist()} instead of ValueError (value changed)")
    # values a hair below / above an integer: not convertible without changing the value
    for m in (3, 1964, 200000, 2**40):
        for v in (float(numpy.nextafter(float(m), 0.0)), float(numpy.nextafter(float(m), numpy.inf)), m * (1 - 2e-13), m * (1 + 2e-13)):
            if v == float(m):
                continue
            s = pd.Series([float(m), v, 3.0])
            out, err = attempt(s, int)
            n += 1
            if err != "ValueError":
                bad.append(f"float column {[repr(x) for x in s.tolist()]} converted to int {None if out is None else out.tolist()} instead of ValueError ({v!r} is not an integer; truncation or rounding changes it)")
    # integral floats outside the int64 range, infinities, NaN: the cast wraps / is undefined -> must be refused;
    # integral floats inside the range (2^53 .. 2^62, -2^63) convert exactly
    for v, ok in ((2.0**63, False), (1e19, False), (-3e19, False), (-(2.0**63) * 2, False), (1e300, False), (float("inf"), False), (float("-inf"), False), (float("nan"), False),
                  (2.0**53, True), (2.0**62, True), (-(2.0**63), True), (-(2.0**62), True)):
        for pos in (0, 2):
            vals = [0.0, 1.0, 3.0]
            vals[pos] = v
            s = pd.Series(vals)
            out, err = attempt(s, int)
            n += 1
            if ok:
                if err or [int(x) for x in out.tolist()] != [int(x) for x in vals] or out.dtype.kind != "i":
                    bad.append(f"float {vals} -> int: expected a lossless conversion, got {err or out.tolist()}")
            elif err != "ValueError":
                bad.append(f"float column {vals} converted to int {None if out is None else out.tolist()} instead of ValueError ({v!r} has no int64 value)")
    for frac in (0.5, 0.01, float("nan"), 1e-12, 1 - 1e-12):
        s = pd.Series([0.0, frac, 1.0])
        out, err = attempt(s, bool)
        n += 1
        if err != "ValueError":
            bad.append(f"float column {s.tolist()} converted to bool {None if out is None else out.tolist()} instead of ValueError")
    for vals, ty, ok in (([0.0, 0.0, 0.0], bool, True), ([1.0, 1.0], bool, True), ([0, 0], bool, True), ([1, 1, 1], bool, True), ([0, 1, 1], bool, True), ([0, 2, 1], bool, False), ([0.0, 1.0], bool, True), ([0.0, 0.5], bool, False), ([True, False], float, False), ([1, 2, 3], float, True),
                         (["a", "b"], int, False), (["1", "2"], float, False), ([1.0, 2.0], float, True), ([True, False], int, True)):
        s = pd.Series(vals)
        if s.dtype == object or str(s.dtype).startswith("str"):
            s = s.astype(object)
        out, err = attempt(s, ty)
        n += 1
        if ok:
            if err or [float(x) for x in out.tolist()] != [float(x) for x in vals]:
                bad.append(f"{vals} -> {ty.__name__}: expected a value-preserving conversion, got {err or out.tolist()}")
        elif err != "ValueError":
            bad.append(f"{vals} -> {ty.__name__}: expected ValueError, got {err or out.tolist()}")
    return n, bad


def faults(pop, env, rng_seed=0):
    """[(description, mutated data)] -- every fault class at every eligible row / column"""
    from _gettsim.config import FOREIGN_KEYS as _FK

    FOREIGN_KEYS = [k for k in [*STATEMENT_POINTERS, *[k for k in _FK if k not in STATEMENT_POINTERS]] if k in pop.columns]
    out = []
    n = len(pop)
    out.append(("p_id column missing", pop.drop(columns=["p_id"])))
    for r in range(1, n):
        d = pop.copy()
        d.loc[r, "p_id"] = d.loc[0, "p_id"]
        out.append((f"duplicate p_id in row {r}", d))
    missing_id = int(pop["p_id"].max()) + 7
    for fk in FOREIGN_KEYS:
        for r in range(n):
            d = pop.copy()
            d.loc[r, fk] = missing_id
            out.append((f"{fk} of row {r} points to a missing person", d))
            d = pop.copy()
            d.loc[r, fk] = d.loc[r, "p_id"]
            out.append((f"{fk} of row {r} points to the person itself", d))
    hh_cols = [c for c in pop.columns if c.endswith("_hh")]
    sizes = pop.groupby("hh_id")["p_id"].transform("count")
    for c in hh_cols:
        for r in range(n):
            if sizes.iloc[r] < 2:
                continue
            d = pop.copy()
            if d[c].dtype == bool:
                d.loc[r, c] = not d.loc[r, c]
            else:
                d[c] = d[c].astype(float) if d[c].dtype.kind == "f" else d[c]
                d.loc[r, c] = d.loc[r, c] + 1
            out.append((f"household-level input {c} varies within the household (row {r})", d))
    # the same fault handed over as a dict of Series whose faulty column carries permuted index labels:
    # rows are simulated by position, so the check must not be fooled by label alignment
    hhs = [g for g, m in pop.groupby("hh_id").groups.items() if len(m) >= 2]
    for c in hh_cols:
        for h1, h2 in itertools.combinations(hhs, 2):
            r, q = int(pop.index[pop["hh_id"] == h1][0]), int(pop.index[pop["hh_id"] == h2][0])
            d = pop.copy()
            if d[c].dtype == bool:
                d.loc[d["hh_id"] == h2, c] = ~d.loc[d["hh_id"] == h1, c].iloc[0]
                d.loc[d["hh_id"] == h1, c] = ~d.loc[d["hh_id"] == h2, c].iloc[0]
            else:
                d.loc[d["hh_id"] == h2, c] = d.loc[d["hh_id"] == h1, c].iloc[0] + 1
            vals = d[c].to_numpy().copy()
            vals[r], vals[q] = vals[q], vals[r]
            labels = list(range(n))
            labels[r], labels[q] = labels[q], labels[r]
            dd = {k: d[k] for k in d.columns}
            dd[c] = pd.Series(vals, index=labels)
            out.append((f"household-level input {c} varies within households {h1} and {h2} (dict of Series, faulty column with swapped index labels)", dd))
    sp = pop.index[pop["p_id_ehepartner"] >= 0].tolist()
    for r in sp:
        d = pop.copy()
        d.loc[r, "gemeinsam_veranlagt"] = not bool(d.loc[r, "gemeinsam_veranlagt"])
        out.append((f"spouses with contradictory gemeinsam_veranlagt (row {r} flipped)", d))
        d2 = d.iloc[::-1].reset_index(drop=True)
        out.append((f"spouses with contradictory gemeinsam_veranlagt (row {r} flipped, rows reversed)", d2))
    return out


def type_faults(pop):
    out = []
    for c, mk in (("alter", lambda s: s.astype(float) + 0.5), ("p_id", lambda s: s.astype(float) + 0.25), ("hh_id", lambda s: s.astype(float) * 1.0 + numpy.r_[0.5, numpy.zeros(len(s) - 1)]),
                  ("kind", lambda s: s.astype(int) + 1), ("wohnort_ost", lambda s: s.astype(float) + 0.5), ("bruttolohn_m", lambda s: s.astype(str).astype(object)), ("geburtsjahr", lambda s: (s.astype(float) + 200000.0 + 0.5))):
        if c in pop.columns:
            d = pop.copy()
            d[c] = mk(d[c])
            out.append((f"column {c} cannot be converted to its documented type without changing a value ({d[c].tolist()[:2]}...)", d))
    return out


def lossless_variants(pop):
    types = popgen.input_types()
    v1 = pop.copy()
    for c in pop.columns:
        if types.get(c) is int and c != "p_id":
            v1[c] = v1[c].astype(float)
    v2 = pop.copy()
    for c in pop.columns:
        if types.get(c) is bool:
            v2[c] = v2[c].astype(int)
    v3 = pop.copy()
    for c in pop.columns:
        if types.get(c) is bool:
            v3[c] = v3[c].astype(float)
    v4 = pop.copy()
    for c in pop.columns:
        if types.get(c) is float and (v4[c] == v4[c].round()).all():
            v4[c] = v4[c].astype(int)
    out = [("int columns given as whole-number floats", v1), ("bool columns given as 0/1 ints", v2), ("bool columns given as 0.0/1.0 floats", v3), ("whole-number float columns given as ints", v4)]
    # integer columns (identifiers included) stored in a narrow integer dtype that holds every value
    v5 = pop.copy()
    for c in pop.columns:
        if types.get(c) is int and pop[c].abs().max() < 100:
            v5[c] = v5[c].astype("int8")
    out.append(("small-valued int columns (ids included) given as int8", v5))
    v6 = pop.copy()
    for c in pop.columns:
        if types.get(c) is int and pop[c].abs().max() < 30000:
            v6[c] = v6[c].astype("int16")
    out.append(("int columns given as int16", v6))
    # one converted column at a time: every single conversion is announced, too
    for c, ty in (("alter", float), ("kind", int), ("bruttolohn_m", int)):
        if c in pop.columns and (ty is not int or (pop[c] == pop[c].round()).all()):
            v = pop.copy()
            v[c] = v[c].astype(ty)
            if str(v[c].dtype) != str(pop[c].dtype):
                out.append((f"only column {c} given as {ty.__name__}", v))
    return out


def run(tier="quick", seed=0, jobs=16):
    from _gettsim.config import DEFAULT_TARGETS

    rep = Report("C20", tier, seed, "fault_enumeration")
    rep.assumptions = ["only raise / no-raise and values are contracted, never message texts (pandas 3 string dtype)", "fault classes are those named in the property statement; faults are injected one at a time at every eligible cell of the base populations, and in sampled pairs",
                       "sn_id_numpy is additionally proved (E2) incl. its exceptional postcondition"]
    lost, kbad, kn = kernel_part(rep)
    pbad = check_function_contracts(rep)
    cn, cbad = conversion_part(rep)
    n_eval = kn + cn
    distinct = set()
    bad = []
    accepted = []
    dates = ["2023-07-01"] if tier == "quick" else ["2015-01-01", "2019-07-01", "2023-07-01"]
    for d in dates:
        e = venv.Env(d)
        year = int(d[:4])
        pops = [popgen.population(k, year=year, seed=seed) for k in (["married", "single_parent"], ["family", "patchwork"])]
        if tier != "quick":
            pops.append(popgen.population(["three_gen", "pensioners", "adult_child", "couple"], year=year, seed=seed))
        targets = [t for t in DEFAULT_TARGETS]
        for pi, pop in enumerate(pops):
            base, _ = apirel.simulate(e, pop, targets=targets)
            n_eval += 1
            fl = faults(pop, e) + type_faults(pop)
            # required columns missing
            roots = sorted(popgen.required_roots(e, targets, list(pop.columns)))
            step = 1 if tier != "quick" else 6
            for c in roots[::step]:
                if c in pop.columns and c != "p_id":
                    fl.append((f"required column {c} missing", pop.drop(columns=[c])))
            dup = pd.concat([pop, pop[["alter"]]], axis=1)
            fl.append(("duplicate column name alter", dup))
            for desc, data in fl:
                n_eval += 1
                distinct.add((d, pi, desc))
                try:
                    with warnings.catch_warnings():
                        warnings.simplefilter("ignore")
                        apirel.simulate(e, data, targets=targets)
                    accepted.append({"what": f"{d}: malformed data accepted and simulated: {desc}", "date": d, "population": pi, "fault": desc})
                except Exception:  # noqa: BLE001
                    pass
            # pairs of faults (sampled): still rejected
            import random

            rng = random.Random(seed + pi)
            # row-reversed variants cannot be merged column-wise; two flips of the joint-assessment flag
            # may cancel (both spouses flipped = consistent again), so at most one of them per pair
            single = [x for x in faults(pop, e) if isinstance(x[1], pd.DataFrame) and "rows reversed" not in x[0]]
            for _ in range(6 if tier == "quick" else 40):
                (d1, a), (d2, b) = rng.sample(single, 2)
                if "gemeinsam_veranlagt" in d1 and "gemeinsam_veranlagt" in d2:
                    continue
                data = a.copy()
                for c in b.columns:
                    if c in data.columns and len(b) == len(data) and not b[c].equals(pop[c] if c in pop.columns else b[c]):
                        data[c] = b[c].to_numpy()
                n_eval += 1
                distinct.add((d, pi, "pair", d1, d2))
                try:
                    with warnings.catch_warnings():
                        warnings.simplefilter("ignore")
                        apirel.simulate(e, data, targets=targets)
                    accepted.append({"what": f"{d}: data with two faults accepted: {d1} + {d2}", "date": d, "population": pi, "fault": f"{d1} + {d2}"})
                except Exception:  # noqa: BLE001
                    pass
            for desc, data in lossless_variants(pop):
                n_eval += 1
                distinct.add((d, pi, desc))
                try:
                    res, w = apirel.simulate(e, data, targets=targets)
                except Exception as ex:  # noqa: BLE001
                    bad.append({"what": f"{d}: lossless dtype variant rejected ({desc}): {ex!r}"[:300]})
                    continue
                diff = apirel.compare_frames(base, res, [t for t in targets if t in base.columns], rtol=0, atol=0)
                if diff:
                    bad.append({"what": f"{d}: lossless dtype variant ({desc}) changes {diff[:4]}"})
                changed = any(str(data[c].dtype) != str(pop[c].dtype) for c in pop.columns)
                if changed and not any("converted" in str(x.message) for x in w):
                    bad.append({"what": f"{d}: automatic type conversion not announced by a warning ({desc})"})
    rep.bounded["fault_enumeration"] = {"evaluations": n_eval, "distinct_nontrivial": len(distinct), "rule": "fault classes x every eligible row/column of the base populations (+ sampled pairs) -> must raise; four lossless dtype variants of all columns and single-column variants -> identical results + warning; conversion function on adversarial magnitudes; sn_id_numpy on all couples <= 4 rows, all orders and flag vectors", "failures": [a["what"] for a in accepted][:6] + [b["what"] for b in bad][:4] + cbad[:4]}
    seen = set()
    for a in accepted:
        key = "accepted:" + a["fault"].split(" (row")[0].split(" of row")[0]
        if key in seen:
            continue
        seen.add(key)
        rep.violation(key, a["what"], a, True)
    for i, b in enumerate(bad[:6]):
        rep.violation(f"coercion:{i}:{b['what'][:50]}", b["what"], b, True)
    for i, b in enumerate(cbad[:6]):
        rep.violation(f"conversion:{i}:{b[:60]}", f"convert_series_to_internal_type: {b}", {"what": b}, True)
    for name, ok, detail in pbad[:4]:
        rep.violation(f"check-contract:{name[:90]}", f"{name}: {detail}", {"obligation": name, "detail": detail}, failing_input_found=False)
    for b in kbad[:3]:
        rep.violation(f"sn_id_numpy:{b['got']}", f"sn_id_numpy on {b['inputs']}: {b['got']}, expected {b['expected']}", b, True)
    if lost and not kbad:
        ref = [o for o, s in lost if s == "refuted"]
        if ref:
            rep.violation(f"sn_id_numpy:{ref[0]}", f"obligation refuted: {ref[0]}", {"obligation": ref[0]}, False)
        elif lost:
            rep.undecided.extend(o for o, _ in lost)
    rep.samples = [{"fault": "p_id_ehepartner of row 1 points to a missing person -> must raise"}, {"variant": "int columns given as whole-number floats -> identical results + warning"}, {"conversion": "float [200000.0, 200000.5, 3.0] -> int must raise ValueError"}]
    return rep.finish({"evaluations": n_eval, "distinct_nontrivial": len(distinct), "rule": rep.bounded["fault_enumeration"]["rule"]})


def replay(path):
    print(open(path).read()[:3000])
    return 0
