"""Independent specification of "the policy environment for a date is the law in force that day"
(C07), written from docs/geps/gep-03.md and the layout of the parameter files -- not from
policy_environment.py. Works on the raw YAML only.

value(group, param, date):
  * the entry with the greatest date key <= date; none -> the parameter is absent, unless its
    FIRST entry says `deviation_from: <group>.<param>`, in which case it equals that parameter
  * `scalar: v` -> v ('inf' -> +infinity); otherwise the dict of value keys (everything except
    note / reference / deviation_from / access_different_date)
  * `deviation_from: previous`  -> the value in force on the day before this entry started, with
    this entry's keys laid over it (deep); `deviation_from: g.p` -> g.p at the same date, overlaid
  * `access_different_date: vorjahr` adds <param>_vorjahr = value one calendar year earlier
    (29 Feb -> 28 Feb); `jahresanfang` adds <param>_jahresanfang = value on 1 January
  * rounding[function] = {base, direction, to_add_after_rounding?} of the latest entry <= date
"""
from __future__ import annotations

import copy
import datetime
import functools
import math
from pathlib import Path

import yaml

META = ("note", "reference", "deviation_from", "access_different_date")


class Absent:
    def __repr__(self):
        return "<absent>"


ABSENT = Absent()


@functools.lru_cache(maxsize=None)
def _raw(path_str):
    return yaml.load(Path(path_str).read_text(encoding="utf-8"), Loader=yaml.CLoader)


def raw_group(param_dir, group):
    return copy.deepcopy(_raw(str(Path(param_dir) / f"{group}.yaml")))


def overlay(base, top):
    if isinstance(base, dict) and isinstance(top, dict):
        out = copy.deepcopy(base)
        for k, v in top.items():
            out[k] = overlay(out[k], v) if k in out else copy.deepcopy(v)
        return out
    return copy.deepcopy(top)


def one_year_earlier(d):
    try:
        return d.replace(year=d.year - 1)
    except ValueError:
        return d.replace(year=d.year - 1, day=28)


def value(param_dir, group, param, date, _depth=0):
    if _depth > 20:
        raise RecursionError("deviation chain too deep")
    raw = raw_group(param_dir, group)
    if param not in raw:
        return ABSENT
    spec = raw[param]
    keys = sorted(k for k in spec if isinstance(k, datetime.date))
    past = [k for k in keys if k <= date]
    if not past:
        first = spec[keys[0]] if keys else {}
        dev = first.get("deviation_from") if isinstance(first, dict) else None
        if isinstance(dev, str) and "." in dev:
            g2, p2 = dev.split(".", 1)
            return value(param_dir, g2, p2, date, _depth + 1)
        return ABSENT
    k = past[-1]
    entry = spec[k]
    if "scalar" in entry:
        v = entry["scalar"]
        return math.inf if v == "inf" else v
    vals = {kk: vv for kk, vv in entry.items() if kk not in META}
    dev = entry.get("deviation_from")
    if dev == "previous":
        base = value(param_dir, group, param, k - datetime.timedelta(days=1), _depth + 1)
        out = overlay(base if base is not ABSENT else {}, vals)
    elif isinstance(dev, str) and "." in dev:
        g2, p2 = dev.split(".", 1)
        base = value(param_dir, g2, p2, date, _depth + 1)
        out = overlay(base if base is not ABSENT else {}, vals)
    else:
        out = copy.deepcopy(vals)
    if isinstance(out, dict):
        for t in ("type", "progressionsfaktor"):
            if t in spec:
                out[t] = spec[t]
    return out


def group_values(param_dir, group, date):
    raw = raw_group(param_dir, group)
    out = {}
    for param, spec in raw.items():
        if param == "rounding":
            continue
        v = value(param_dir, group, param, date)
        if v is not ABSENT:
            out[param] = v
        acc = spec.get("access_different_date") if isinstance(spec, dict) else None
        if v is not ABSENT and acc == "vorjahr":
            w = value(param_dir, group, param, one_year_earlier(date))
            if w is not ABSENT:
                out[f"{param}_vorjahr"] = w
        elif v is not ABSENT and acc == "jahresanfang":
            w = value(param_dir, group, param, datetime.date(date.year, 1, 1))
            if w is not ABSENT:
                out[f"{param}_jahresanfang"] = w
    if "rounding" in raw:
        r = {}
        for fn, spec in raw["rounding"].items():
            ks = sorted(k for k in spec if isinstance(k, datetime.date) and k <= date)
            if ks:
                e = spec[ks[-1]]
                r[fn] = {k: e[k] for k in ("base", "direction", "to_add_after_rounding") if k in e}
        out["rounding"] = r
    return out
