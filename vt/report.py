"""Verdict plumbing shared by all property checks: obligations, violations, known findings,
replay files, evidence JSON, exit codes (DESIGN.md section 5)."""
from __future__ import annotations

import json
import os
import re
import sys
import time
from pathlib import Path

VERIF = Path(__file__).resolve().parent.parent
_OUT = Path(os.environ["VERIF_OUT"]) if os.environ.get("VERIF_OUT") else VERIF  # seed scans write elsewhere
EVIDENCE = _OUT / "evidence"
REPLAYS = _OUT / "replays"
KNOWN = VERIF / "known_findings.json"

ASSUMPTIONS = {
    "A1": "A1: machine arithmetic treated as mathematical (float = real, int = integer; no rounding error, overflow, NaN); concrete parameter numbers enter as the exact rational of their repr",
    "A2": "A2: short-circuit and/or and conditional expressions encoded logically, definedness of the right operand guarded by the left",
    "A3": "A3: dictionary iteration order of parameter dicts is the order CPython gives at run time (evaluated concretely)",
    "A4": "A4: numpy scalars behave as Python scalars on the operations of the supported subset",
    "T": "termination is not verified",
}


def load_known():
    if KNOWN.exists():
        return json.loads(KNOWN.read_text())
    return []


def _safe(s):
    return re.sub(r"[^A-Za-z0-9_.äöüÄÖÜß-]+", "_", str(s))[:150]


class Report:
    def __init__(self, prop, tier, seed, level):
        self.prop = prop
        self.tier = tier
        self.seed = seed
        self.level = level
        self.t0 = time.time()
        self.obligations = []  # dicts
        self.violations = []  # dicts
        self.known_hits = []
        self.undecided = []
        self.functions = set()
        self.assumptions = []
        self.trusted = []
        self.samples = []
        self.extra = {}
        self.bounded = {}
        self.checker_cmd = f"./check {prop} --tier {tier}"
        self.known = [k for k in load_known() if k.get("property") == prop]
        self.crashed = None

    # ---- obligations -----------------------------------------------------------------
    def ob(self, name, status, backend="z3", seconds=0.0, where="", kind="", detail=""):
        """status: discharged | refuted | unknown | unsupported"""
        self.obligations.append(
            {"name": name, "status": status, "backend": backend, "seconds": round(seconds, 4), "where": where, "kind": kind, "detail": detail}
        )
        if status in ("unknown", "unsupported"):
            self.undecided.append(name)

    def add_counts(self, n_discharged, backend="z3", seconds=0.0, label=""):
        """bulk registration of discharged obligations (kept as counters, not individually)"""
        c = self.extra.setdefault("bulk_discharged", {})
        c[label or backend] = c.get(label or backend, 0) + n_discharged
        self.extra["bulk_seconds"] = self.extra.get("bulk_seconds", 0.0) + seconds

    # ---- violations ------------------------------------------------------------------
    def violation(self, key, what, replay: dict, failing_input_found=True):
        """Report a violation unless `key` is an open known finding."""
        for k in self.known:
            if k.get("status") == "open" and k.get("key") == key:
                if key not in [h["key"] for h in self.known_hits]:
                    self.known_hits.append({"key": key, "what": k.get("what", what)})
                return False
        for v in self.violations:
            if v["key"] == key:
                if failing_input_found and not v["failing_input_found"]:
                    v["failing_input_found"] = True
                    v["what"] = what
                    break
                return False
        else:
            v = None
        if v is not None:
            self.violations.remove(v)
        d = REPLAYS / self.prop
        d.mkdir(parents=True, exist_ok=True)
        path = d / (_safe(key) + ".json")
        replay = dict(replay)
        replay.setdefault("property", self.prop)
        replay.setdefault("key", key)
        replay.setdefault("what", what)
        path.write_text(json.dumps(replay, indent=1, default=str, ensure_ascii=False))
        self.violations.append({"key": key, "what": what, "replay": str(path), "failing_input_found": failing_input_found})
        return True

    # ---- finish ----------------------------------------------------------------------
    def counts(self):
        n = len(self.obligations) + sum(self.extra.get("bulk_discharged", {}).values())
        d = sum(1 for o in self.obligations if o["status"] == "discharged") + sum(self.extra.get("bulk_discharged", {}).values())
        return n, d

    def finish(self, coverage_extra=None):
        n, d = self.counts()
        refuted = [o for o in self.obligations if o["status"] == "refuted"]
        if refuted and not self.violations and not self.known_hits:
            # a refuted obligation must never pass silently
            o = refuted[0]
            self.violation(f"obligation:{o['name'][:100]}", f"obligation refuted: {o['name']} ({o.get('detail', '')[:200]})", {"obligation": o["name"], "detail": o.get("detail", ""), "backend": o.get("backend")}, failing_input_found=False)
        by_backend = {}
        secs = self.extra.get("bulk_seconds", 0.0)
        for o in self.obligations:
            by_backend[o["backend"]] = by_backend.get(o["backend"], 0) + 1
            secs += o["seconds"]
        for k, v in self.extra.get("bulk_discharged", {}).items():
            by_backend[k] = by_backend.get(k, 0) + v
        # refuted obligations that are exactly the open known findings (no new violation) are decided
        # and reported separately; the proof-level count covers the remaining obligations
        n_kf = len(refuted) if (refuted and not self.violations and self.known_hits) else 0
        cov = {
            "obligations": n - n_kf,
            "discharged": d,
            "obligations_refuted_by_open_known_findings": n_kf,
            "refuted": len(refuted),
            "refuted_known_findings": len([o for o in refuted if o.get("known")]),
            "undecided": len(self.undecided),
            "by_backend": by_backend,
            "solver_seconds": round(secs, 3),
            "checker_cmd": self.checker_cmd,
            "trusted_base": self.trusted,
            "functions_under_contract": sorted(self.functions)[:400],
            "n_functions_under_contract": len(self.functions),
            "samples": self.samples[:12] or [o for o in self.obligations[:3]],
            "known_findings_reported": self.known_hits,
            "violations": self.violations,
            "bounded_standins": self.bounded,
            "non_discharged": [o for o in self.obligations if o["status"] != "discharged"][:60],
        }
        if self.bounded:
            ev = sum(int(b.get("evaluations", 0)) for b in self.bounded.values())
            dn = sum(int(b.get("distinct_nontrivial", 0)) for b in self.bounded.values())
            cov["evaluations"] = ev
            cov["distinct_nontrivial"] = dn
            cov["rule"] = " | ".join(f"{k}: {b.get('rule', '')}" for k, b in self.bounded.items())
        if coverage_extra:
            cov.update(coverage_extra)
        ev = {
            "property_id": self.prop,
            "tier": self.tier,
            "seed": int(self.seed),
            "level": self.level,
            "coverage": cov,
            "assumptions": self.assumptions,
            "wall_s": round(time.time() - self.t0, 2),
            "violations": len(self.violations),
        }
        EVIDENCE.mkdir(parents=True, exist_ok=True)
        (EVIDENCE / f"{self.prop}.json").write_text(json.dumps(ev, indent=1, default=str, ensure_ascii=False))
        for h in self.known_hits:
            print(f"KNOWN-FINDING: property={self.prop} {h['key']}: {h['what']}")
        for v in self.violations:
            tail = "" if v["failing_input_found"] else " no-failing-input-found"
            print(f"VIOLATION property={self.prop} replay={v['replay']}{tail}")
            print(f"  {v['key']}: {v['what']}")
        print(
            f"[{self.prop}/{self.tier}] obligations={n} discharged={d} refuted={len(refuted)} "
            f"undecided={len(self.undecided)} violations={len(self.violations)} known={len(self.known_hits)} "
            f"wall={ev['wall_s']}s"
        )
        if self.violations:
            return 1
        if n == 0 and not self.bounded:
            print("ERROR: zero obligations generated", file=sys.stderr)
            return 3
        if self.undecided:
            for u in self.undecided[:20]:
                print(f"UNDECIDED property={self.prop} obligation={u}")
            return 2
        return 0


def seed_from_env():
    try:
        return int(os.environ.get("VERIF_SEED", "0"))
    except ValueError:
        return 0
