"""VALID(pop): the validity domain of input data (DESIGN.md section 6).

Every clause is an *assumption* about valid populations, reported in the evidence. Types come
from `_gettsim.config.TYPES_INPUT_VARIABLES` (read at run time); the ranges below are the
documented / statutory meaning of the variables (docs/gettsim_objects/input_variables.md).
Only *inputs* are constrained here; computed columns are constrained by contracts that are
themselves proved (contracts/nodes.py).
"""
from __future__ import annotations

import z3

# (lo, hi) inclusive; None = unbounded on that side
INT_RANGES = {
    "alter": (0, 120),
    "geburtsjahr": (1880, 2100),
    "geburtsmonat": (1, 12),
    "geburtstag": (1, 31),
    "mietstufe": (1, 7),
    "steuerklasse": (1, 6),
    "behinderungsgrad": (0, 100),
    "jahr_renteneintr": (1900, 2200),
    "monat_renteneintr": (1, 12),
    "monate_elterngeldbezug": (0, 36),
    "immobilie_baujahr_hh": (1000, 2100),
    "grundr_zeiten": (0, 1440),
    "grundr_bew_zeiten": (0, 1440),
    "hh_id": (0, None),
    "p_id": (0, None),
    "p_id_elternteil_1": (-1, None),
    "p_id_elternteil_2": (-1, None),
    "p_id_kindergeld_empf": (-1, None),
    "p_id_erziehgeld_empf": (-1, None),
    "p_id_ehepartner": (-1, None),
    "p_id_einstandspartner": (-1, None),
    "p_id_betreuungsk_träger": (-1, None),
}

# floats that may be negative (losses); every other float input is a non-negative amount,
# duration, count of months/years, area, hours or earnings points
MAY_BE_NEGATIVE = {
    "eink_vermietung_m",
    "eink_selbst_m",
    "kapitaleink_brutto_m",
    "sonstig_eink_m",
    "elterngeld_zu_verst_eink_vorjahr_y_sn",
}

FLOAT_LOWER = {
    "wohnfläche_hh": 1,  # a dwelling has a positive floor area
}

FLOAT_UPPER = {
    "arbeitsstunden_w": 168,
}

# relational clauses of VALID (applied whenever all variables are arguments of the rule at hand)
RELATIONAL = [
    (("jahr_renteneintr", "geburtsjahr"), lambda jahr_renteneintr, geburtsjahr: jahr_renteneintr >= geburtsjahr + 18, "nobody retires before the year of the 18th birthday"),
]

MAX_POINTING = 24  # at most 24 persons point to the same person (children per recipient)

MAGNITUDE = 2**53  # all magnitudes below 2^53 (exactly representable integers)


def input_types():
    from _gettsim.config import TYPES_INPUT_VARIABLES

    return dict(TYPES_INPUT_VARIABLES)


def statutory_mietstufen(params):
    """The rent levels (Mietstufen) that exist at the date of `params`: the keys of the table of
    maximum rents for a one-person household (Anlage 1 WoGG) -- I..VI until 2019, I..VII since."""
    try:
        tab = params["wohngeld"]["max_miete"][1]
        if all(not isinstance(v, dict) for v in tab.values()):
            ks = sorted(k for k in tab if isinstance(k, int))
            if ks:
                return ks
    except (KeyError, TypeError):
        pass
    return None


def valid_clause(name, term, ty, params=None):
    """z3 constraint for one input variable occurrence (term of python type ty)."""
    cl = []
    if name == "mietstufe" and params is not None:
        ks = statutory_mietstufen(params)
        if ks:
            import z3 as _z3

            return [_z3.Or(*[term == k for k in ks])]
    if ty == "int":
        lo, hi = INT_RANGES.get(name, (None, None))
        if name not in INT_RANGES:
            lo = 0  # counts
        if lo is not None:
            cl.append(term >= lo)
        if hi is not None:
            cl.append(term <= hi)
        else:
            cl.append(term < MAGNITUDE)
    elif ty == "float":
        if name in FLOAT_LOWER:
            cl.append(term >= FLOAT_LOWER[name])
        elif name not in MAY_BE_NEGATIVE:
            cl.append(term >= 0)
        else:
            cl.append(term > -MAGNITUDE)
        cl.append(term <= FLOAT_UPPER.get(name, MAGNITUDE))
    return cl


def valid_for_args(sym_args: dict, suffix=""):
    """VALID restricted to the arguments of one rule: sym_args name -> (z3 term, pytype).
    Only names that are documented inputs are constrained."""
    types = input_types()
    cl = []
    used = []
    for name, (term, ty) in sym_args.items():
        if name in types:
            c = valid_clause(name, term, ty)
            if c:
                used.append(name)
            cl.extend(c)
    return cl, used


def relational_clauses(vars_by_name: dict):
    cl = []
    for names, mk, _ in RELATIONAL:
        if all(n in vars_by_name for n in names):
            cl.append(mk(*[vars_by_name[n] for n in names]))
    return cl


def describe():
    return (
        "VALID: documented input ranges (alter 0..120, geburtsmonat 1..12, mietstufe 1..7, steuerklasse 1..6, "
        "behinderungsgrad 0..100, ids >= 0, pointers >= -1, counts/durations/amounts >= 0 except "
        + ", ".join(sorted(MAY_BE_NEGATIVE))
        + "; mietstufe among the rent levels in force at the date; at most 24 children per recipient; wohnfläche_hh >= 1; " + "; ".join(t for _, _, t in RELATIONAL) + "; all magnitudes < 2^53)"
    )
