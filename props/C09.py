"""C09 -- rewriting a rule into array form preserves its meaning.

  TV  per-rule translation validation, all argument values: for every internal policy function
      (every Python function object of the rule modules, all validity periods) the REAL
      _make_vectorizable_ast is run; original (scalar semantics) and rewritten AST (numpy
      semantics by contract: where = ite, logical_* = and/or/not, maximum/minimum, elementwise
      arithmetic) are both summarised by E1 with the concrete parameters of a date at which the
      rule is active; z3 must find no argument vector on which the two differ -- or the rewrite
      raises TranslateToVectorizableError (loud), or the array form provably fails when called
  SH  schematic shape lemmas for "every function in the documented style": the real Transformer is
      applied to schematic functions whose sub-expressions are opaque placeholders, one per shape
      of docs/gettsim_developer/code-restrictions.md (body/else in {return, assignment, augmented
      assignment, nested if, conditional expression}, and/or/not chains, 1- and 2-argument
      reductions); obligation per shape: for all placeholder values equal semantics, OR the
      transformer raises. (Lifting shapes to all programs of the style by compositionality of the
      bottom-up NodeTransformer is a paper argument.)
  FR  frame contract of make_vectorizable: assigns nothing but fresh objects -- checked on the real
      AST (exec into the function's own module globals is a write to module state) and replayed
      in a child interpreter.
"""
from __future__ import annotations

import ast
import inspect
import itertools
import json
import linecache
import subprocess
import sys
import textwrap
import types

import numpy
import z3

from contracts import inputs as vin
from vt import env as venv
from vt import par, rules, solve, symx
from vt.report import ASSUMPTIONS, Report


def rewritten_node(func):
    """FunctionDef of the array form produced by the real rewriter (or the raised error)"""
    from _gettsim import vectorization as vz

    tree = vz._make_vectorizable_ast(inspect.unwrap(func), module="numpy")
    fns = [n for n in tree.body if isinstance(n, ast.FunctionDef)]
    if len(fns) != 1:
        raise symx.Unsupported("rewriter did not return exactly one function")
    return fns[0]


def compare(func, conc, sym=None):
    """-> dict(status, detail, witness?)"""
    from _gettsim import vectorization as vz

    try:
        s0 = symx.summarise(func, sym_args=sym, conc_args=conc, range_bound=rules.RANGE_BOUND)
    except symx.Unsupported as ex:
        return {"status": "unsupported", "detail": f"original: {ex}"}
    if isinstance(s0.result, symx.Undefined):
        return {"status": "vacuous", "detail": "no returning path with these parameters"}
    try:
        node = rewritten_node(func)
    except vz.TranslateToVectorizableError as ex:
        return {"status": "discharged", "detail": "rewriter raises TranslateToVectorizableError (loud)", "loud": True}
    except symx.Unsupported as ex:
        return {"status": "unsupported", "detail": str(ex)}
    except Exception as ex:  # noqa: BLE001
        return {"status": "discharged", "detail": f"rewriter raises {type(ex).__name__} (loud): {ex}", "loud": True}
    try:
        s1 = symx.summarise(func, sym_args=sym, conc_args=conc, range_bound=rules.RANGE_BOUND, node_override=node, extra_globals={"numpy": numpy})
    except symx.CrossRowReduction as ex:
        return {"status": "refuted", "detail": str(ex), "cross_row": True}
    except symx.Unsupported as ex:
        # constructs that numpy cannot evaluate on arrays (range(array), dict[array], ...) fail loudly when called
        return {"status": "discharged", "detail": f"array form not evaluable on arrays -> fails when called: {ex}", "loud": True}
    if isinstance(s1.result, symx.Undefined):
        return {"status": "discharged", "detail": "array form raises on every input (loud)", "loud": True}
    pre, _ = rules.valid_pre(s0)
    ret0 = symx.mk_or(*[g for g, _ in s0.returns])
    ret1 = symx.mk_or(*[g for g, _ in s1.returns])
    try:
        if _is_boolish(s0.result) and _is_boolish(s1.result):
            ex_ = symx.Executor()
            r0, r1 = symx._b(ex_.truthy(s0.result)), symx._b(ex_.truthy(s1.result))
        else:
            r0, r1 = symx.real_term(s0.result, [*pre, ret0]), symx.real_term(s1.result, [*pre, ret1])
    except (symx.Unsupported, symx.InfiniteValue, symx.PathAbort) as ex:
        return {"status": "unsupported", "detail": f"result term: {ex}"}
    # both forms return normally and differ
    r = solve.check([*pre, ret0, ret1, r0 != r1], 30)
    if r.status == "unsat":
        return {"status": "discharged", "detail": ""}
    if r.status == "sat":
        return {"status": "refuted", "detail": "array form differs", "witness": rules.model_inputs(r.model, s0)}
    return {"status": "unknown", "detail": r.reason}


def _is_boolish(v):
    if isinstance(v, bool):
        return True
    return isinstance(v, symx.Num) and all(ty == "bool" for _, _, ty in v.alts)


def replay_rule(module, qualname, date, witness, rows=None):
    """real make_vectorizable in a child interpreter (it may rebind module globals): array form on
    a table (two copies of the witness row, or the given rows) vs the scalar rule row by row"""
    if rows is None:
        rows = [witness, witness]
    code = f"""
import json, sys, importlib, inspect, warnings
warnings.filterwarnings('ignore')
import numpy
sys.path.insert(0, '/verif')
from vt import env as venv
import datetime
from _gettsim.vectorization import make_vectorizable
e = venv.Env(datetime.date.fromisoformat({date!r}))
mod = importlib.import_module({module!r})
f = inspect.unwrap(getattr(mod, {qualname!r}))
rows = json.loads({json.dumps(rows)!r})
conc = e.conc_params_for(f)
scalars = [float(f(**w, **conc)) for w in rows]
try:
    vf = make_vectorizable(f, 'numpy')
    arr = vf(**{{k: numpy.array([w[k] for w in rows]) for k in rows[0]}}, **conc)
    out = {{'scalar': scalars[0], 'scalars': scalars, 'array': [float(x) for x in numpy.atleast_1d(arr)], 'raised': None}}
except Exception as ex:
    out = {{'scalar': scalars[0], 'scalars': scalars, 'array': None, 'raised': type(ex).__name__ + ': ' + str(ex)[:200]}}
print('RESULT' + json.dumps(out))
"""
    p = subprocess.run([sys.executable, "-c", code], capture_output=True, text=True, timeout=300)
    for line in p.stdout.splitlines():
        if line.startswith("RESULT"):
            return json.loads(line[6:])
    return {"error": p.stderr[-500:]}


def _generic_rows(module, qualname):
    """two rows with pairwise different values for every argument (cross-row reductions)"""
    import importlib

    f = inspect.unwrap(getattr(importlib.import_module(module), qualname))
    rows = []
    for r in range(2):
        row = {}
        for j, n in enumerate(a for a in inspect.signature(f).parameters if not a.endswith("_params")):
            ty = symx.PYTYPES.get(symx.annotation_type(f, n))
            row[n] = True if ty == "bool" else (60 + 3 * r + j) if ty == "int" else 60.0 + 3.5 * r + 0.25 * j
        rows.append(row)
    return rows


# ---------------------------------------------------------------------------------------
def _tv_worker(dates):
    out = {"items": {}, "n": 0}
    seen = set()
    for d in dates:
        e = venv.Env(d)
        for name, func in e.functions.items():
            f0 = inspect.unwrap(func)
            key = (f0.__module__, f0.__qualname__)
            if key in seen:
                continue
            ok, why = rules.is_scalar_rule(func)
            if ok and rules.declared_return(func) is None:
                ok, why = False, "declared result type is not float/int/bool (datetime rule: outside the E1 subset)"
            if not ok:
                seen.add(key)
                out["items"][str(key)] = {"rule": f0.__qualname__, "module": f0.__module__, "date": str(d), "status": "excluded", "detail": why}
                continue
            res = compare(func, e.conc_params_for(func))
            if res["status"] == "vacuous":
                continue  # try again at a later date where its parameters exist
            seen.add(key)
            out["n"] += 1
            out["items"][str(key)] = {"rule": f0.__qualname__, "module": f0.__module__, "date": str(d), "where": rules.where_of(func), **res}
    return out


# ---------------------------------------------------------------------------------------
# schematic shapes
# ---------------------------------------------------------------------------------------
_counter = itertools.count()


def make_function(src, name="f"):
    """function object whose source inspect.getsource can find (linecache entry, no file)"""
    src = textwrap.dedent(src)
    fname = f"<verif-shape-{next(_counter)}>"
    linecache.cache[fname] = (len(src), None, src.splitlines(True), fname)
    mod = types.ModuleType("__verif_dyn__")
    mod.__dict__["numpy"] = numpy
    exec(compile(src, fname, "exec"), mod.__dict__)  # noqa: S102
    f = mod.__dict__[name]
    f.__module__ = "__verif_dyn__"
    return f


def shapes():
    """(label, source) -- c, d opaque booleans; a, b, x0 opaque reals"""
    hdr = "def f(c: bool, d: bool, a: float, b: float, x0: float, y0: float) -> float:\n    x = x0\n    y = y0\n"
    bodies = {"return": "return a", "assign": "x = a", "augassign": "x += a"}
    elses = {"none": None, "return": "return b", "assign-same": "x = b", "assign-other": "y = b", "augassign": "x += b", "nested-if": "if d:\n            x = b\n        else:\n            x = b + 1", "ifexp": "x = b if d else b + 1"}
    out = []
    for bl, bs in bodies.items():
        for el, es in elses.items():
            src = hdr + f"    if c:\n        {bs}\n"
            if es is not None:
                src += f"    else:\n        {es}\n"
            src += "    return x + y\n"
            out.append((f"if[{bl}]/else[{el}]", src))
    # elif chain
    out.append(("if/elif/else assignments", hdr + "    if c:\n        x = a\n    elif d:\n        x = b\n    else:\n        x = a + b\n    return x\n"))
    out.append(("if/elif/else returns", hdr + "    if c:\n        return a\n    elif d:\n        return b\n    else:\n        return a + b\n"))
    out.append(("two statements in the if body", hdr + "    if c:\n        x = a\n        y = b\n    return x + y\n"))
    out.append(("two statements in the else block", hdr + "    if c:\n        x = a\n    else:\n        x = b\n        y = a\n    return x + y\n"))
    out.append(("two statements in the final else of an elif chain", hdr + "    if c:\n        x = a\n    elif d:\n        x = b\n    else:\n        x = a + b\n        y = a\n    return x + y\n"))
    b2 = "def f(c: bool, d: bool, e: bool, a: float, b: float) -> bool:\n"
    for lab, expr in {"and": "c and d", "or": "c or d", "not": "not c", "and-or chain": "(c and d) or e", "or-and chain": "c or (d and e)", "three-way and": "c and d and e", "not of and": "not (c and d)", "comparison chain": "(a < b) and (b < 3.0) or not c"}.items():
        out.append((f"bool[{lab}]", b2 + f"    return {expr}\n"))
    h3 = "def f(c: bool, a: float, b: float, x0: float) -> float:\n"
    for lab, expr in {"ifexp": "a if c else b", "nested ifexp": "a if c else (b if a > b else x0)", "max2": "max(a, b)", "min2": "min(a, b)", "max of sum": "max(a + b, 0.0)", "min-max clamp": "min(max(a, 0.0), b)", "max3": "max(a, b, x0)", "sum of tuple": "sum((a, b))", "max of list": "max([a, b])", "any of tuple": "float(any((a > 0, b > 0)))"}.items():
        out.append((f"expr[{lab}]", h3 + f"    return {expr}\n"))
    return out


def shape_obligations(rep):
    where = "src/_gettsim/vectorization.py:113-343 (Transformer)"
    for label, src in shapes():
        f = make_function(src)
        res = compare(f, {})
        st = res["status"]
        name = f"SH {label}"
        rep.ob(name, st if st != "vacuous" else "unsupported", "z3", 0, where, "shape", res.get("detail", "") + (f" witness {res['witness']}" if "witness" in res else ""))
        if st == "refuted":
            w = res.get("witness")
            found = False
            detail = res.get("detail", "")
            try:
                vf = _vectorize_here(f)
                if w is not None:
                    args = {k: numpy.array([v, v]) for k, v in w.items()}
                    got = numpy.atleast_1d(vf(**args))
                    exp = f(**w)
                    found = bool(float(got[0]) != float(exp))
                    detail = f"inputs {w}: scalar function {exp}, array form {got.tolist()}"
                elif res.get("cross_row"):
                    names = list(inspect.signature(f).parameters)
                    rows = [{n: (True if n in "cde" else float(i + 1 + j)) for j, n in enumerate(names)} for i in range(2)]
                    got = numpy.atleast_1d(vf(**{n: numpy.array([r[n] for r in rows]) for n in names}))
                    exp = [f(**r) for r in rows]
                    found = got.shape != (2,) or any(float(g) != float(x) for g, x in zip(got, exp))
                    detail = f"two rows {rows}: per-row {exp}, array form {got.tolist()}"
            except Exception as ex:  # noqa: BLE001
                detail += f" | array form raises when called: {type(ex).__name__} (loud after all)"
                found = False
                if "raises when called" in detail:
                    # loud failure is allowed by the property: not a violation
                    rep.obligations[-1]["status"] = "discharged"
                    rep.obligations[-1]["detail"] += " -> fails loudly when called"
                    continue
            rep.violation(f"shape:{label}", f"documented-style shape `{label}` is rewritten to an array form with different meaning: {detail}", {"obligation": name, "source": src, "witness": w, "detail": detail}, failing_input_found=found)


def _vectorize_here(f):
    """array form of a dynamically created function: compile the rewriter's AST in a FRESH namespace"""
    from _gettsim import vectorization as vz

    tree = vz._make_vectorizable_ast(f, module="numpy")
    ns = {"numpy": numpy}
    exec(compile(tree, "<ast>", "exec"), ns)  # noqa: S102
    return ns[f.__name__]


# ---------------------------------------------------------------------------------------
def frame_obligation(rep):
    from _gettsim import vectorization as vz

    where = "src/_gettsim/vectorization.py:11-41 (make_vectorizable)"
    rep.functions.add("src/_gettsim/vectorization.py:11 make_vectorizable")
    src = textwrap.dedent(inspect.getsource(vz.make_vectorizable))
    fn = ast.parse(src).body[0]
    # aliases of func.__globals__
    aliases = set()
    writes = []
    for n in ast.walk(fn):
        if isinstance(n, ast.Assign) and isinstance(n.targets[0], ast.Name) and ast.unparse(n.value).endswith(".__globals__"):
            aliases.add(n.targets[0].id)
    for n in ast.walk(fn):
        if isinstance(n, ast.Assign) and isinstance(n.targets[0], ast.Subscript) and isinstance(n.targets[0].value, ast.Name) and n.targets[0].value.id in aliases:
            writes.append(f"store {ast.unparse(n.targets[0])}")
        if isinstance(n, ast.Call) and getattr(n.func, "id", None) in ("exec", "eval"):
            ns = [ast.unparse(a) for a in n.args[1:]]
            if any(a in aliases or a.endswith(".__globals__") for a in ns):
                writes.append(f"exec into {ns}")
    # FR2 (E3, flow-sensitive may-alias/effect inference; functools.wraps shares the attribute values of
    # the wrapped function): nothing reachable from the argument is written
    from vt import frame

    an = frame.Analyzer(str(venv.SRC))
    eff = an.effects.get(("_gettsim.vectorization", "make_vectorizable"))
    name2 = "FR2 make_vectorizable writes nothing reachable from its argument (attributes such as __info__ are shared with the result by functools.wraps)"
    if eff is None:
        rep.ob(name2, "unsupported", "E3", 0, where, "frame", "function not found")
    else:
        w2 = sorted(x for x in eff.writes if not x.startswith("outer:"))
        if not w2 and not eff.unknown_calls:
            rep.ob(name2, "discharged", "E3", 0, where, "frame")
        elif not w2:
            rep.ob(name2, "unknown", "E3", 0, where, "frame", f"unknown calls {sorted(eff.unknown_calls)}")
        else:
            sites = [f"line {ln}: {txt}" for loc, ln, txt in eff.write_sites][:4]
            rep.ob(name2, "refuted", "E3", 0, where, "frame", f"writes {w2} at {sites}")
            code2 = """
import copy, types, linecache
src = 'def g(x):\\n    if x > 0:\\n        out = 1.0\\n    else:\\n        out = 2.0\\n    return out\\n'
linecache.cache['<m>'] = (len(src), None, src.splitlines(True), '<m>')
m = types.ModuleType('m'); exec(compile(src, '<m>', 'exec'), m.__dict__)
m.g.__info__ = {'start_date': 1, 'nested': {'k': [1, 2]}}
before = copy.deepcopy(m.g.__dict__)
from _gettsim.vectorization import make_vectorizable
make_vectorizable(m.g, 'numpy')
print('ATTRIBUTES-CHANGED ' + repr(m.g.__dict__) if m.g.__dict__ != before else 'ATTRIBUTES-SAME')
"""
            p2 = subprocess.run([sys.executable, "-c", code2], capture_output=True, text=True, timeout=120)
            out2 = p2.stdout.strip()
            rep.violation("make_vectorizable:writes-argument", f"make_vectorizable writes into objects reachable from the function it is given ({'; '.join(sites)}); child interpreter: {out2!r}", {"obligation": name2, "writes": w2, "sites": sites, "child_output": out2, "code": code2}, failing_input_found="ATTRIBUTES-CHANGED" in out2)
    name = "FR make_vectorizable assigns nothing reachable from the function's module"
    if not writes:
        rep.ob(name, "discharged", "frame", 0, where, "frame")
        return
    rep.ob(name, "refuted", "frame", 0, where, "frame", "; ".join(writes))
    code = """
import sys, types, linecache, numpy
src = 'def g(x):\\n    if x > 0:\\n        out = 1.0\\n    else:\\n        out = 2.0\\n    return out\\n'
linecache.cache['<m>'] = (len(src), None, src.splitlines(True), '<m>')
m = types.ModuleType('m'); exec(compile(src, '<m>', 'exec'), m.__dict__)
g0 = m.g
had_numpy = 'numpy' in m.__dict__
from _gettsim.vectorization import make_vectorizable
make_vectorizable(m.g, 'numpy')
print('REBOUND' if m.g is not g0 else 'SAME', 'INJECTED' if ('numpy' in m.__dict__) != had_numpy else 'CLEAN')
try:
    m.g(1.0); print('SCALAR-CALL-OK')
except Exception as ex:
    print('SCALAR-CALL-FAILS', type(ex).__name__)
"""
    p = subprocess.run([sys.executable, "-c", code], capture_output=True, text=True, timeout=120)
    out = p.stdout.strip()
    bad = "REBOUND" in out or "INJECTED" in out
    rep.violation("make_vectorizable:writes-module-globals", f"make_vectorizable writes into func.__globals__ ({'; '.join(writes)}); child interpreter: {out!r}", {"obligation": name, "writes": writes, "child_output": out, "code": code}, failing_input_found=bad)


def replay(path):
    rp = json.loads(open(path).read())
    if "module" in rp and (rp.get("witness") or rp.get("rows")):
        r = replay_rule(rp["module"], rp["qualname"], rp["date"], rp.get("witness"), rp.get("rows"))
        print(json.dumps(r, indent=1))
        sc = r.get("scalars") or [r.get("scalar")]
        return 1 if (r.get("array") and (len(r["array"]) != len(sc) or any(abs(a - b) > 1e-9 for a, b in zip(r["array"], sc)))) else 0
    print(json.dumps(rp, indent=1)[:3000])
    return 0


def run(tier="quick", seed=0, jobs=16):
    rep = Report("C09", tier, seed, "translation_validation")
    rep.assumptions = [ASSUMPTIONS["A1"], ASSUMPTIONS["A2"], ASSUMPTIONS["A4"], vin.describe(),
                       "numpy semantics by contract: where(c,a,b) = elementwise ite (both branches evaluated), logical_and/or/not, maximum/minimum; a reduction numpy.sum/any/all/max/min over a sequence of per-row values reduces over all rows",
                       "each rule is validated with the concrete parameters of the first function-set class in which it returns",
                       "lifting the schematic shapes to all programs of the documented style (compositionality of the bottom-up NodeTransformer) is a paper argument"]
    rep.trusted = ["numpy.where / logical_* / maximum / minimum contracts", "z3 5.1.0 / cvc5 1.4.0", "E1 encoder"]
    rep.functions |= {"src/_gettsim/vectorization.py:70 _make_vectorizable_ast", "src/_gettsim/vectorization.py:113 Transformer.visit_*", "src/_gettsim/vectorization.py:182 _if_to_call", "src/_gettsim/vectorization.py:234 _ifexp_to_call", "src/_gettsim/vectorization.py:264 _boolop_to_call", "src/_gettsim/vectorization.py:298 _call_to_call_from_module", "src/_gettsim/vectorization.py:158 _not_to_call"}
    shape_obligations(rep)
    frame_obligation(rep)
    dates = venv.function_set_classes()
    # later classes first for parameters: a rule is validated at the first class where it returns
    results = par.pmap(_tv_worker, par.chunks(dates, jobs), jobs)
    items = {}
    for st, job, res in results:
        if st != "ok":
            raise RuntimeError(res)
        for k, v in res["items"].items():
            if k not in items or (items[k]["status"] == "excluded" and v["status"] != "excluded"):
                items[k] = v
    n_prog = 0
    n_loud = 0
    disagreements = 0
    for k, it in sorted(items.items()):
        if it["status"] == "excluded":
            continue
        n_prog += 1
        n_loud += 1 if it.get("loud") else 0
        name = f"TV {it['rule']}"
        rep.ob(name, it["status"], "z3", 0, it.get("where", ""), "translation", it.get("detail", ""))
        if it["status"] == "refuted":
            disagreements += 1
            w = it.get("witness")
            found = False
            detail = it.get("detail", "")
            rows = None
            if not w and it.get("cross_row"):
                rows = _generic_rows(it["module"], it["rule"])
            if w or rows:
                r = replay_rule(it["module"], it["rule"], it["date"], w, rows)
                if r.get("array") is not None:
                    sc = r.get("scalars") or [r["scalar"]]
                    arr = r["array"]
                    found = len(arr) != len(sc) or any(abs(a - b) > 1e-9 * max(1, abs(b)) for a, b in zip(arr, sc))
                    detail = f"rows {rows or [w]}: scalar rule per row {sc}, array form {arr}"
                    it["rows"] = rows
                elif r.get("raised"):
                    detail = f"array form raises when called ({r['raised']}): loud"
                    rep.obligations[-1]["status"] = "discharged"
                    rep.obligations[-1]["detail"] = detail
                    continue
            rep.violation(f"{it['rule']}:array-form-differs", f"{it['rule']} ({it.get('where')}): {detail}", {"module": it["module"], "qualname": it["rule"], "date": it["date"], "witness": w, "rows": it.get("rows"), "obligation": name}, failing_input_found=found)
    rep.samples = [o for o in rep.obligations if o["name"].startswith("SH")][:3] + [o for o in rep.obligations if o["name"].startswith("TV")][:3]
    return rep.finish({"programs": n_prog + len(shapes()), "disagreements_checked": disagreements, "internal_functions_validated": n_prog, "of_which_fail_loudly": n_loud, "schematic_shapes": len(shapes()), "excluded": [v["rule"] for v in items.values() if v["status"] == "excluded"]})
