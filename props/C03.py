"""C03 -- each column value equals the scalar rule applied to that row's inputs; the dtype
follows the declared result type and never depends on the data.

Deciding obligations (E1, per rule and date class, all inputs):
  V   structural contract of `_vectorize_func` (real AST): returns numpy.vectorize(func[, otypes])
      applied to exactly the arguments it receives; reads whether `otypes` is derived from the
      return annotation (mode B) or absent (mode A, dtype inferred from the first row).
  T   mode A: every feasible return path of the rule yields the declared Python type
      (=> the inferred dtype is the same whichever row comes first, nothing is cast);
      mode B: every feasible return path yields a type that converts to the declared dtype
      without loss (bool->int->float), so the fixed `otypes` never truncates.
  R   rules carrying a rounding key are declared float (the wrapper always yields float64).
Counter-models are replayed on the real `_vectorize_func(rule)` with two rows.
"""
from __future__ import annotations

import ast
import datetime
import inspect
import json
import random
import textwrap
import time
from fractions import Fraction

import numpy
import z3

from contracts import inputs as vin
from vt import env as venv
from vt import par, rules, solve, symx
from vt.report import ASSUMPTIONS, Report

LOSSLESS = {"float": {"float", "int", "bool"}, "int": {"int", "bool"}, "bool": {"bool"}}


# ------------------------------------------------------------------------------------
# V: structural contract of _vectorize_func
# ------------------------------------------------------------------------------------
def _semantic_probe(fl):
    out = []

    def r_float(x: float) -> float:
        return 0 if x < 1 else x * 1.5

    def r_bool(x: float) -> bool:
        return 0 if x < 1 else x > 2

    def r_str(x: "float") -> "float":  # noqa: UP037
        return 1 if x < 1 else x / 4

    for f, xs, want_dtype in ((r_float, [0.0, 1.5, 2.5], "float64"), (r_float, [2.5, 0.0, 1.5], "float64"), (r_bool, [0.0, 3.0, 1.5], "bool"), (r_str, [0.0, 1.0, 3.0], "float64")):
        try:
            got = fl._vectorize_func(f)(numpy.array(xs))
            want = numpy.array([f(v) for v in xs], dtype=want_dtype)
            if numpy.asarray(got).dtype.name != want_dtype or not numpy.array_equal(numpy.asarray(got), want):
                out.append(f"rule {f.__name__} on rows {xs}: column {numpy.asarray(got).tolist()} ({numpy.asarray(got).dtype}), row-wise evaluation gives {want.tolist()} ({want_dtype})")
        except Exception as ex:  # noqa: BLE001
            out.append(f"rule {f.__name__} on rows {xs}: {ex!r}")
    return out


def vectorize_contract():
    """Behavioural contract of the real _vectorize_func, with numpy.vectorize replaced by a recording
    stub (robust to refactorings of its body):
      V1 numpy.vectorize is called with THE function passed in (identity) and, for a float / int / bool
         return annotation (type object or string), otypes = [that dtype]; no other keyword
      V2 the returned wrapper passes its arguments through unchanged and returns the result unchanged
      V3 two distinct function objects with the same module and qualified name each get their own
         vectorised function (nothing is cached by name)
    -> (mode 'A' | 'B' | None, detail, failures)"""
    from _gettsim import functions_loader as fl

    calls = []

    class _NP:
        def __getattr__(self, k):
            return getattr(numpy, k)

        @staticmethod
        def vectorize(f, *a, **kw):
            rec = {"f": f, "args": a, "kw": kw, "called_with": []}
            calls.append(rec)

            def vec(*aa, **kk):
                rec["called_with"].append((aa, kk))
                return _Res(("vectorised-result-of", id(f)))

            return vec

    class _Res:
        """result sentinel: equal to its tag only while nothing was applied to it"""

        def __init__(self, tag, ops=()):
            self.tag, self.ops = tag, ops

        def __eq__(self, o):
            return not self.ops and o == self.tag

        def __ne__(self, o):
            return not self.__eq__(o)

        __hash__ = None

        def __getattr__(self, k):
            if k.startswith("__"):
                raise AttributeError(k)
            return lambda *a, **kw: _Res(self.tag, (*self.ops, k))

        def __repr__(self):
            return f"<result of the vectorised function{''.join('.' + o + '(..)' for o in self.ops)}>"

    fails = []
    with_otypes = without_otypes = 0
    saved = fl.numpy
    try:
        fl.numpy = _NP()
        for ann, want in ((float, "float64"), (int, "int64"), (bool, "bool"), ("float", "float64"), ("int", "int64"), ("bool", "bool")):
            def probe(x, y=0):
                return x

            probe.__annotations__ = {"x": ann, "y": ann, "return": ann}
            del calls[:]
            w = fl._vectorize_func(probe)
            out = w(3, y=4)
            mine = [c for c in calls if c["f"] is probe]
            if len(mine) != 1 or len(calls) != 1:
                fails.append(f"V1 annotation {ann!r}: numpy.vectorize called {len(calls)} time(s), {len(mine)} of them with the function passed in")
                continue
            c = mine[0]
            extra = set(c["kw"]) - {"otypes"}
            if extra or c["args"]:
                fails.append(f"V1 annotation {ann!r}: unexpected arguments to numpy.vectorize {c['args']} {sorted(extra)}")
            ot = c["kw"].get("otypes")
            if ot is None:
                without_otypes += 1
            else:
                with_otypes += 1
                if len(ot) != 1 or numpy.dtype(ot[0]).name != want:
                    fails.append(f"V1 annotation {ann!r}: otypes={ot!r}, declared type needs [{want}]")
            if out != ("vectorised-result-of", id(probe)) or c["called_with"] != [((3,), {"y": 4})]:
                fails.append(f"V2 annotation {ann!r}: wrapper(3, y=4) returned {out!r} after calling the vectorised function with {c['called_with']}")
        # V3
        def make(k):
            def same_name(x):
                return x + k

            same_name.__annotations__ = {"x": float, "return": float}
            return same_name

        f1, f2 = make(1), make(2)
        del calls[:]
        w1, w2 = fl._vectorize_func(f1), fl._vectorize_func(f2)
        o1, o2 = w1(1.0), w2(1.0)
        if o1 != ("vectorised-result-of", id(f1)) or o2 != ("vectorised-result-of", id(f2)):
            fails.append("V3 two distinct functions with the same module and qualified name: the second wrapper evaluates the first function")
    except Exception as ex:  # noqa: BLE001
        fails.append(f"contract probes could not run: {ex!r}")
    finally:
        fl.numpy = saved
    if fails:
        # the body no longer has the contracted shape: decide on adversarial rules with the real numpy --
        # first row on an int-literal branch, later rows fractional (and the reverse order)
        sem = _semantic_probe(fl)
        if sem:
            return None, "; ".join((sem + fails)[:3]), sem + fails
        return None, "shape not recognised (" + "; ".join(fails[:2]) + "); adversarial probes agree with row-wise evaluation", []
    if with_otypes and without_otypes:
        return None, "otypes passed for some of float/int/bool annotations only", [f"V1 otypes passed for {with_otypes} of 6 annotation forms (type objects and strings of float/int/bool)"]
    if without_otypes:
        return "A", "numpy.vectorize(func) without otypes: dtype inferred from the first row", []
    return "B", "otypes = [declared dtype] for float/int/bool annotations (type objects and strings); wrapper passes through; no caching by name", []


# ------------------------------------------------------------------------------------
# worker: all scalar rules of a chunk of date classes
# ------------------------------------------------------------------------------------
def _type_of_conc(v):
    if isinstance(v, bool):
        return "bool"
    if isinstance(v, int):
        return "int"
    if isinstance(v, (symx.Fl, float)):
        return "float"
    return None


def _worker(job):
    dates, mode, seed = job
    cache = rules.RuleSummaries()
    rng = random.Random(seed)
    out = {"items": {}, "selfcheck": 0, "selfcheck_fail": [], "dates": [], "n_rules_seen": 0, "solver": {}}
    for d in dates:
        e = venv.Env(d)
        fps = rules.group_fps(e)
        out["dates"].append(str(d))
        for name, func in e.functions.items():
            ok, why = rules.is_scalar_rule(func)
            f0 = inspect.unwrap(func)
            pyname = f0.__qualname__
            if not ok:
                k = ("skip", f0.__module__, pyname)
                out["items"].setdefault(str(k), {"kind": "excluded", "rule": pyname, "dag_name": name, "why": why, "where": rules.where_of(func), "first_date": str(d)})
                continue
            out["n_rules_seen"] += 1
            if rules.declared_return(func) is None:
                k = ("skip", f0.__module__, pyname)
                out["items"].setdefault(str(k), {"kind": "excluded", "rule": pyname, "dag_name": name, "why": f"declared result type {symx.annotation_type(func, 'return')!r} is not float/int/bool", "where": rules.where_of(func), "first_date": str(d)})
                continue
            key, s, fresh = cache.get(e, fps, func)
            if not fresh:
                continue
            item = {"kind": "rule", "rule": pyname, "dag_name": name, "where": rules.where_of(func), "first_date": str(d), "declared": rules.declared_return(func), "rounded": bool((getattr(func, "__info__", None) or {}).get("params_key_for_rounding"))}
            out["items"][str(key)] = item
            if isinstance(s, symx.Unsupported):
                item["status"] = "unsupported"
                item["detail"] = str(s)
                continue
            _check_rule_types(item, s, func, e, mode)
            # encoder self-check on fresh summaries
            try:
                n, bad = _selfcheck(s, func, e, rng)
                out["selfcheck"] += n
                out["selfcheck_fail"].extend(bad)
            except Exception as ex:  # noqa: BLE001
                out["selfcheck_fail"].append(f"{pyname}: self-check crashed: {ex!r}")
    out["solver"] = dict(solve.STATS)
    return out


def _alts_of(result):
    if isinstance(result, symx.Num):
        return [(g, t, ty) for g, t, ty in result.alts]
    ty = _type_of_conc(result)
    if ty is None:
        return None
    return [(symx.TRUE, result, ty)]


def _check_rule_types(item, s, func, e, mode):
    declared = item["declared"]
    if isinstance(s.result, symx.Undefined):
        item["status"] = "discharged"
        item["vacuous"] = True
        item["detail"] = "no returning path at this date (the rule raises for every input: " + ", ".join(sorted({r[1] for r in s.raises})) + "); nothing to type"
        return
    if declared is None:
        item["status"] = "discharged"
        item["excluded_declared"] = True
        item["detail"] = "declared result type is not float/int/bool; no numeric dtype obligation"
        return
    alts = _alts_of(s.result)
    if alts is None or declared is None:
        item["status"] = "unsupported"
        item["detail"] = f"result of kind {type(s.result).__name__} / declared {declared}"
        return
    allowed = {declared} if mode == "A" else LOSSLESS[declared]
    pre, used = rules.valid_pre(s)
    item["paths"] = []
    item["status"] = "discharged"
    item["seconds"] = 0.0
    item["n_alts"] = len(alts)
    for g, t, ty in alts:
        if ty in allowed:
            continue
        r = solve.check([*pre, g], timeout_s=20)
        item["seconds"] += r.seconds
        if r.status == "unsat":
            item["paths"].append({"type": ty, "status": "infeasible"})
            continue
        if r.status == "unknown":
            item["paths"].append({"type": ty, "status": "unknown"})
            item["status"] = "unknown" if item["status"] != "refuted" else "refuted"
            continue
        item["status"] = "refuted"
        row0 = rules.model_inputs(r.model, s)
        # a second row whose result has a fractional part (truncation witness)
        row1 = None
        for g2, t2, ty2 in alts:
            if ty2 != "float" or isinstance(t2, float) or not z3.is_expr(t2):
                continue
            r2 = solve.check([*pre, g2, t2 != z3.ToReal(z3.ToInt(t2))], timeout_s=10)
            if r2.status == "sat":
                row1 = rules.model_inputs(r2.model, s)
                break
        item["paths"].append({"type": ty, "status": "feasible", "row0": row0, "row1": row1})
    if item["rounded"] and declared != "float":
        item["status"] = "refuted"
        item["paths"].append({"type": "float", "status": "rounding wrapper yields float64 but the rule is declared " + declared})


def _random_inputs(s, rng):
    vals = {}
    types = vin.input_types()
    for name, (term, ty) in s.args.items():
        if ty == "bool":
            vals[name] = rng.random() < 0.5
        elif ty == "int":
            lo, hi = vin.INT_RANGES.get(name, (0, None))
            lo = 0 if lo is None else lo
            hi = lo + 60 if hi is None else hi
            vals[name] = rng.randint(lo, min(hi, lo + 3000)) if name in types else rng.choice([0, 1, 2, 3, 5, 12, 40, 1990, 2020, rng.randint(0, 80)])
        else:
            vals[name] = rng.choice([0.0, 1.0, 0.5, 450.0, 520.01, 1234.56, 2500.0, 8000.0, 95000.0, rng.uniform(0, 4000), rng.uniform(0, 120000)])
            if name in vin.MAY_BE_NEGATIVE and rng.random() < 0.3:
                vals[name] = -vals[name]
    return vals


def _eval_summary(s, vals):
    """evaluate the summary's result under concrete inputs -> (pytype, Fraction|bool|int) or None"""
    subs = []
    for name, (term, ty) in s.args.items():
        v = vals[name]
        if ty == "bool":
            subs.append((term, z3.BoolVal(bool(v))))
        elif ty == "int":
            subs.append((term, z3.IntVal(int(v))))
        else:
            subs.append((term, symx.frac_to_z3real(Fraction(repr(float(v))))))
    res = s.result
    if not isinstance(res, symx.Num):
        return _type_of_conc(res), res
    for g, t, ty in res.alts:
        gv = z3.simplify(z3.substitute(g, *subs)) if subs else z3.simplify(g)
        if z3.is_true(gv):
            if isinstance(t, float):
                return ty, t
            tv = z3.simplify(z3.substitute(t, *subs)) if subs else z3.simplify(t)
            if ty == "bool":
                return ty, bool(z3.is_true(tv))
            if z3.is_int_value(tv):
                return ty, tv.as_long()
            if z3.is_rational_value(tv):
                return ty, Fraction(tv.numerator_as_long(), tv.denominator_as_long())
            return ty, None
    return None, None


def _obligations_hold(s, vals):
    """does any safety obligation fire under vals? (then the native run may raise)"""
    subs = []
    for name, (term, ty) in s.args.items():
        v = vals[name]
        subs.append((term, z3.BoolVal(bool(v)) if ty == "bool" else z3.IntVal(int(v)) if ty == "int" else symx.frac_to_z3real(Fraction(repr(float(v))))))
    for o in s.obligations:
        c = z3.simplify(z3.substitute(o.cond, *subs)) if subs else z3.simplify(o.cond)
        if not z3.is_false(c):
            return False
    return True


def _selfcheck(s, func, e, rng, k=3):
    """CPython on the real function vs. substitution into the z3 term."""
    f0 = inspect.unwrap(func)
    conc = e.conc_params_for(func)
    bad = []
    n = 0
    for _ in range(k):
        vals = _random_inputs(s, rng)
        if not _obligations_hold(s, vals):
            continue
        try:
            native = f0(**vals, **conc)
        except Exception as ex:  # noqa: BLE001
            bad.append(f"{f0.__qualname__}: native raised {ex!r} on {vals} although no safety obligation fires")
            continue
        ty, val = _eval_summary(s, vals)
        n += 1
        nty = "bool" if isinstance(native, (bool, numpy.bool_)) else "int" if isinstance(native, (int, numpy.integer)) else "float" if isinstance(native, (float, numpy.floating)) else type(native).__name__
        if ty != nty:
            bad.append(f"{f0.__qualname__}: type {ty} (encoding) vs {nty} (CPython) on {vals}")
            continue
        if val is None:
            continue
        nv = float(native)
        sv = float(val)
        if not (abs(nv - sv) <= 1e-6 * max(1.0, abs(nv))):
            bad.append(f"{f0.__qualname__}: value {sv!r} (encoding) vs {nv!r} (CPython) on {vals}")
    return n, bad


# ------------------------------------------------------------------------------------
# replay on the real code
# ------------------------------------------------------------------------------------
def _replay_rows(module, qualname, date, rows):
    """Run the real _vectorize_func(rule) on the rows; compare with the scalar rule row by row."""
    import importlib

    from _gettsim.functions_loader import _vectorize_func

    e = venv.Env(datetime.date.fromisoformat(date))
    mod = importlib.import_module(module)
    func = getattr(mod, qualname)
    f0 = inspect.unwrap(func)
    conc = e.conc_params_for(func)
    vec = _vectorize_func(func)
    names = list(rows[0].keys())
    types = {n: symx.PYTYPES.get(symx.annotation_type(func, n)) for n in names}
    cols = {n: numpy.array([r[n] for r in rows], dtype={"float": float, "int": numpy.int64, "bool": bool}[types[n]]) for n in names}
    scalar = [f0(**{n: cols[n][i] for n in names}, **conc) for i in range(len(rows))]
    column = vec(**cols, **conc)
    declared = rules.declared_return(func)
    want_dtype = {"float": "float64", "int": "int64", "bool": "bool"}[declared]
    value_mismatch = [i for i in range(len(rows)) if float(column[i]) != float(scalar[i])]
    return {
        "column": [x.item() if hasattr(x, "item") else x for x in column],
        "column_dtype": str(column.dtype),
        "declared_dtype": want_dtype,
        "scalar_results": [x.item() if hasattr(x, "item") else x for x in scalar],
        "scalar_types": [type(x).__name__ for x in scalar],
        "value_mismatch_rows": value_mismatch,
        "violates": bool(value_mismatch) or str(column.dtype) != want_dtype,
    }


def replay(path):
    rp = json.loads(open(path).read())
    if rp.get("replay") == "vectorize_contract":
        mode, detail, vfails = vectorize_contract()
        print(json.dumps({"mode": mode, "detail": detail, "failures": vfails}, indent=1))
        return 1 if vfails else 0
    if "rows" not in rp:
        print(json.dumps(rp, indent=1))
        return 0
    res = _replay_rows(rp["module"], rp["qualname"], rp["date"], rp["rows"])
    print(json.dumps(res, indent=1, default=str))
    return 1 if res["violates"] else 0


def api_rowwise(rep, seed):
    """bounded stand-in for the glue after the wrapper (never counted as proved): through the public API,
    with permuted / non-default index labels, row i of every column of a scalar rule whose arguments
    are all input columns equals the rule applied to row i of those inputs, with the declared dtype"""
    import pandas as pd

    from vt import apirel, popgen

    n_eval = 0
    distinct = set()
    bad = []
    for d in ("2023-07-01", "2016-01-01"):
        e = venv.Env(d)
        pop = popgen.population(["family", "single_parent", "pensioners", "adult_child"], year=int(d[:4]), seed=seed)
        fno, _ = e.universe(None, list(pop.columns))
        reachable = set(e.dag(data_cols=list(pop.columns)).nodes)  # computable by C08
        cands = []
        for n, f in sorted(fno.items()):
            if n not in reachable or venv.classify_node(n, f) != "scalar_rule":
                continue
            f0 = inspect.unwrap(f)
            args = [a for a in inspect.signature(f0).parameters if not a.endswith("_params")]
            if args and all(a in pop.columns for a in args) and rules.declared_return(f) in ("float", "int", "bool"):
                cands.append((n, f, f0, args))
        cands = cands[:60]
        for label, idx in (("default", None), ("reversed", list(reversed(range(len(pop))))), ("shifted", [10 * i + 7 for i in range(len(pop))]), ("strings", [f"r{i}" for i in range(len(pop))])):
            data = pop.copy()
            if idx is not None:
                data.index = idx
            for debug in (False, True):
                try:
                    res, _ = apirel.simulate(e, data, targets=[c[0] for c in cands], rounding=False, debug=debug)
                except Exception as ex:  # noqa: BLE001
                    bad.append(f"{d}: index {label}, debug={debug}: call fails: {ex!r}"[:300])
                    continue
                n_eval += 1
                if len(res) != len(pop):
                    bad.append(f"{d}: index {label}, debug={debug}: {len(res)} rows for {len(pop)} input rows")
                    continue
                for n, f, f0, args in cands:
                    kw = e.conc_params_for(f)
                    want = [f0(**{a: pop[a].iloc[r].item() for a in args}, **kw) for r in range(len(pop))]
                    got = res[n].to_numpy()
                    distinct.add((d, label, debug, n))
                    wd = {"float": "f", "int": "i", "bool": "b"}[rules.declared_return(f)]
                    ok = got.dtype.kind == wd and all((g == w) or (isinstance(w, float) and abs(g - w) <= 1e-12 * max(1.0, abs(w))) for g, w in zip(got.tolist(), want))
                    if not ok and len(bad) < 8:
                        bad.append(f"{d}: index labels {label}, debug={debug}: column {n} = {got.tolist()[:6]} ({got.dtype}); the rule applied row by row gives {want[:6]} (declared {rules.declared_return(f)})")
    rep.bounded["api_rowwise"] = {"evaluations": n_eval, "distinct_nontrivial": len(distinct), "rule": "2 dates x 4 index labellings x debug on/off: up to 60 scalar rules whose arguments are all inputs, compared per row with the raw rule (rounding off); distinct = (date, labelling, debug, rule)", "failures": bad[:8]}
    for i, b in enumerate(bad[:3]):
        rep.violation(f"api-rowwise:{i}:{b[:50]}", b, {"what": b, "kind": "bounded stand-in"}, True)


# ------------------------------------------------------------------------------------
def run(tier="quick", seed=0, jobs=16):
    rep = Report("C03", tier, seed, "proof")
    rep.assumptions = [ASSUMPTIONS["A1"], ASSUMPTIONS["A2"], ASSUMPTIONS["A4"], vin.describe(),
                       "arguments that are computed columns are constrained by their annotation type only (over-approximation of reachable inputs)"]
    rep.trusted = [
        "numpy.vectorize(f[, otypes])(*cols): out[i] = f(*(c[i] for c in cols)); dtype = otypes[0] if given, else the type of f(row 0), later results cast to it",
        "CPython, z3 5.1.0, cvc5 1.4.0",
        "E1 encoder (vt/symx.py), cross-checked against CPython on seeded inputs every run",
    ]
    mode, detail, vfails = vectorize_contract()
    rep.functions.add("src/_gettsim/functions_loader.py:_vectorize_func")
    vname = "V:_vectorize_func applies numpy.vectorize to the function passed in, with otypes from the declared type, and returns a pass-through wrapper"
    if mode is None and not vfails:
        rep.ob(vname, "unsupported", "recording-stub", 0, "src/_gettsim/functions_loader.py", "contract", detail)
    elif mode is None:
        rep.ob(vname, "refuted", "recording-stub", 0, "src/_gettsim/functions_loader.py", "contract", detail)
        for i, vf in enumerate(vfails[:3]):
            rep.violation(f"vectorize-contract:{vf[:40]}", f"_vectorize_func: {vf}", {"obligation": vname, "probe": vf, "replay": "vectorize_contract"}, True)
    else:
        rep.ob(vname, "discharged", "recording-stub", 0, "src/_gettsim/functions_loader.py", "contract", f"mode {mode}: {detail}")
    rep.extra["vectorize_mode"] = mode
    if mode is None:
        # the per-rule obligations are stated relative to this contract: without it they are not generated
        rep.samples = rep.obligations[:2]
        return rep.finish({"date_classes": 0, "note": "per-rule obligations not generated: the _vectorize_func contract does not hold"})

    dates = rules.quick_dates()
    if tier == "quick":
        # every date class is covered in both tiers; quick uses fewer self-check samples only
        pass
    jobs_list = [(chunk, mode or "A", seed + i) for i, chunk in enumerate(par.chunks(dates, max(1, jobs)))]
    results = par.pmap(_worker, jobs_list, jobs)
    items = {}
    selfcheck = 0
    selfcheck_fail = []
    n_seen = 0
    for st, job, res in results:
        if st != "ok":
            raise RuntimeError(f"worker crashed: {res}")
        selfcheck += res["selfcheck"]
        selfcheck_fail.extend(res["selfcheck_fail"])
        n_seen += res["n_rules_seen"]
        for k, v in res["items"].items():
            if k not in items:
                items[k] = v
    if selfcheck_fail:
        for m in selfcheck_fail[:20]:
            print("ENCODER-SELF-CHECK-FAILED:", m)
        rep.crashed = "encoder self-check failed"
        rep.extra["selfcheck_failures"] = selfcheck_fail[:50]
        rep.finish()
        return 3

    excluded = []
    refuted_rules = {}
    for k, it in sorted(items.items()):
        if it["kind"] == "excluded":
            excluded.append({"rule": it["rule"], "why": it["why"]})
            continue
        rep.functions.add(f"{it['where']} {it['rule']}")
        name = f"T:{it['rule']}@{it['first_date']}"
        st = it["status"]
        rep.ob(name, st, "z3" if it.get("paths") else "typing", it.get("seconds", 0.0), it["where"], "return-type", it.get("detail", "") or json.dumps([{"type": p["type"], "status": p["status"]} for p in it.get("paths", [])]))
        if st == "refuted":
            refuted_rules.setdefault(it["rule"], []).append(it)

    # replay refutations on the real _vectorize_func
    for rule, its in sorted(refuted_rules.items()):
        it = its[0]
        feas = [p for p in it["paths"] if p["status"] == "feasible"]
        key = f"{rule}:returns-{'+'.join(sorted({p['type'] for p in it['paths'] if p['status'] != 'infeasible'}))}-declared-{it['declared']}"
        if not feas:
            rep.violation(key, f"{rule}: {it['paths'][-1]['status']}", {"obligation": f"T:{rule}", "detail": it["paths"]}, failing_input_found=False)
            continue
        p = feas[0]
        rows = [p["row0"]] + ([p["row1"]] if p.get("row1") else [])
        mod = None
        for m_, q_ in [(x.split("'")[1], x.split("'")[3]) for x in [k for k, v in items.items() if v is it]]:
            mod, qn = m_, q_
        try:
            res = _replay_rows(mod, qn, it["first_date"], rows)
        except Exception as ex:  # noqa: BLE001
            res = {"violates": False, "error": repr(ex)}
        what = (
            f"{rule} ({it['where']}) declared {it['declared']} but returns {p['type']} for inputs {p['row0']}; "
            f"real column dtype {res.get('column_dtype')} vs declared {res.get('declared_dtype')}, column {res.get('column')} vs per-row results {res.get('scalar_results')}"
        )
        for o in rep.obligations:
            if o["name"].startswith(f"T:{rule}@"):
                o["replayed"] = res.get("violates")
        rep.violation(key, what, {"module": mod, "qualname": qn, "date": it["first_date"], "rows": rows, "result": res, "obligation": f"T:{rule}@{it['first_date']}"}, failing_input_found=bool(res.get("violates")))

    api_rowwise(rep, seed)
    rep.samples = [
        {"obligation": o["name"], "status": o["status"], "where": o["where"], "detail": o["detail"][:300]}
        for o in rep.obligations[:2] + [o for o in rep.obligations if o["status"] == "refuted"][:3]
    ]
    cov = {
        "date_classes": len(dates),
        "first_date": str(dates[0]),
        "last_date": str(dates[-1]),
        "rule_instances_visited": n_seen,
        "distinct_rule_x_params_summarised": len([1 for it in items.values() if it["kind"] == "rule"]),
        "excluded_non_scalar": excluded,
        "encoder_selfcheck_samples": selfcheck,
        "vectorize_contract": detail,
    }
    # refuted obligations that are open known findings count as decided, not discharged
    return rep.finish(cov)
