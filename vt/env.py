"""Extraction layer: everything here is obtained from the real code in /repo at run time.

* change_dates(): all dates at which a parameter entry, a rounding entry or a rule's validity
  interval starts (end dates + 1 day), plus every 1 January (year-derived values). Between two
  consecutive change dates the environment is constant (this is C07's obligation 2, checked by
  E4; here it is only used to pick representatives).
* Env(date): params + functions from the real set_up_policy_environment, the real function
  universe / DAG from load_and_check_functions + set_up_dag.
"""
from __future__ import annotations

import ast
import datetime
import functools
import hashlib
import inspect
import pickle
import re
import warnings
from pathlib import Path

import yaml

import os

REPO = Path(os.environ.get("VERIF_REPO", "/repo"))  # a scratch copy may be checked instead (seed scans)
SRC = REPO / "src" / "_gettsim"


def repo_tree_hash() -> str:
    h = hashlib.sha256()
    for p in sorted(SRC.rglob("*")):
        if p.is_file() and p.suffix in (".py", ".yaml"):
            h.update(str(p.relative_to(SRC)).encode())
            h.update(p.read_bytes())
    return h.hexdigest()


def yaml_dates() -> set:
    out = set()

    def rec(o):
        if isinstance(o, dict):
            for k, v in o.items():
                if isinstance(k, datetime.date):
                    out.add(k)
                rec(v)
        elif isinstance(o, list):
            for v in o:
                rec(v)

    for p in sorted((SRC / "parameters").glob("*.yaml")):
        rec(yaml.load(p.read_text(encoding="utf-8"), Loader=yaml.CLoader))
    return out


def decorator_dates() -> set:
    """start dates and (end date + 1 day) of every @policy_info in the source (read from the AST)."""
    out = set()
    for p in sorted(SRC.rglob("*.py")):
        try:
            tree = ast.parse(p.read_text(encoding="utf-8"))
        except SyntaxError:
            continue
        for node in ast.walk(tree):
            if isinstance(node, ast.Call) and getattr(node.func, "id", None) == "policy_info":
                for kw in node.keywords:
                    if kw.arg in ("start_date", "end_date") and isinstance(kw.value, ast.Constant):
                        d = datetime.date.fromisoformat(kw.value.value)
                        if kw.arg == "end_date":
                            if d.year >= 9999:
                                continue
                            d = d + datetime.timedelta(days=1)
                        out.add(d)
    return out


@functools.lru_cache(maxsize=None)
def change_dates(first_year=1980) -> tuple:
    ds = yaml_dates() | decorator_dates()
    last = max(d for d in ds if d.year < 3000)
    # `vorjahr` look-ups shift entries by a year; jahresanfang / date.year values change on 1 Jan
    shifted = set()
    for d in ds:
        try:
            shifted.add(d.replace(year=d.year + 1))
        except ValueError:
            shifted.add(d.replace(year=d.year + 1, day=28))
            shifted.add(datetime.date(d.year + 1, 3, 1))
    ds |= shifted
    for y in range(first_year, last.year + 2):
        ds.add(datetime.date(y, 1, 1))
    lo = datetime.date(first_year, 1, 1)
    hi = datetime.date(last.year + 1, last.month, last.day if not (last.month == 2 and last.day == 29) else 28)
    return tuple(sorted(d for d in ds if lo <= d <= hi))


def last_parameter_date() -> datetime.date:
    return max(d for d in yaml_dates() if d.year < 3000)


def date_classes(since=None, until=None):
    """[(first day, last day)] of every maximal interval without a change date."""
    cds = list(change_dates())
    out = []
    for i, d in enumerate(cds):
        nxt = cds[i + 1] - datetime.timedelta(days=1) if i + 1 < len(cds) else d
        out.append((d, nxt))
    if since:
        out = [c for c in out if c[1] >= since]
        out = [(max(c[0], since), c[1]) for c in out]
    if until:
        out = [c for c in out if c[0] <= until]
    return out


def documented_inputs() -> set:
    txt = (REPO / "docs" / "gettsim_objects" / "input_variables.md").read_text(encoding="utf-8")
    return set(re.findall(r"^## `([^`]+)`", txt, flags=re.M))


class Env:
    """The policy environment of one date, from the real loader."""

    def __init__(self, date):
        from _gettsim.policy_environment import set_up_policy_environment

        self.date = date if isinstance(date, datetime.date) else datetime.date.fromisoformat(str(date))
        self._params = None
        self._functions = None
        self._universe = None
        self._dag = {}

    def _load(self):
        from _gettsim.policy_environment import set_up_policy_environment

        with warnings.catch_warnings():
            warnings.simplefilter("ignore")
            self._params, self._functions = set_up_policy_environment(self.date)

    @property
    def params(self):
        if self._params is None:
            self._load()
        return self._params

    @property
    def functions(self):
        """functions only (cheap): the real load_functions_for_date"""
        if self._functions is None:
            from _gettsim.policy_environment import load_functions_for_date

            self._functions = load_functions_for_date(self.date)
        return self._functions

    # -- function universe -------------------------------------------------------
    def universe(self, targets=None, data_cols=None):
        """(functions_not_overridden, functions_overridden) from the real loader."""
        from _gettsim.config import DEFAULT_TARGETS, TYPES_INPUT_VARIABLES
        from _gettsim.functions_loader import load_and_check_functions

        targets = sorted(set(DEFAULT_TARGETS if targets is None else targets))
        data_cols = list(TYPES_INPUT_VARIABLES) if data_cols is None else list(data_cols)
        key = (tuple(targets), tuple(data_cols))
        if self._universe is None or self._universe[0] != key:
            self.missing_targets = []
            with warnings.catch_warnings():
                warnings.simplefilter("ignore")
                for _ in range(3):
                    try:
                        fno, fo = load_and_check_functions(
                            functions_raw=self.functions,
                            targets=targets,
                            data_cols=data_cols,
                            aggregate_by_group_specs={},
                            aggregate_by_p_id_specs={},
                        )
                        break
                    except ValueError as ex:
                        if "no corresponding function" not in str(ex):
                            raise
                        miss = re.findall(r'"([^"\n]+)"', str(ex))
                        self.missing_targets.extend(miss)
                        targets = [t for t in targets if t not in miss]
            self.targets = targets
            self._universe = (key, fno, fo)
        return self._universe[1], self._universe[2]

    def dag(self, targets=None, data_cols=None):
        from _gettsim.config import DEFAULT_TARGETS
        from _gettsim.interface import set_up_dag

        targets = sorted(set(DEFAULT_TARGETS if targets is None else targets))
        fno, fo = self.universe(targets, data_cols)
        targets = [t for t in targets if t not in self.missing_targets]
        key = (tuple(targets), tuple(data_cols) if data_cols is not None else None)
        if key not in self._dag:
            with warnings.catch_warnings():
                warnings.simplefilter("ignore")
                self._dag[key] = set_up_dag(
                    all_functions=fno,
                    targets=targets,
                    columns_overriding_functions=set(fo),
                    check_minimal_specification="ignore",
                )
        return self._dag[key]

    def conc_params_for(self, func):
        f0 = inspect.unwrap(func)
        sig = inspect.signature(f0)
        return {a: self.params[a[:-7]] for a in sig.parameters if a.endswith("_params") and a[:-7] in self.params}


def classify_node(name, func):
    """Node class of a function object in the real universe."""
    from _gettsim.groupings import create_groupings

    if func in create_groupings().values() or name in create_groupings():
        return "grouping"
    f0 = inspect.unwrap(func)
    qn = getattr(f0, "__qualname__", "")
    if "aggregate_by_group_func" in qn:
        return "aggregate_by_group"
    if "aggregate_by_p_id_func" in qn:
        return "aggregate_by_p_id"
    if "_create_function_for_time_unit" in qn:
        return "time_conversion"
    info = getattr(func, "__info__", None) or getattr(f0, "__info__", None) or {}
    if info.get("skip_vectorization"):
        return "array_rule"
    return "scalar_rule"


def _canon(obj, out):
    """structural, aliasing-insensitive serialisation (pickle memoises shared sub-objects, so two equal
    environments can pickle differently)"""
    if isinstance(obj, dict):
        out.append("{")
        for k in sorted(obj, key=lambda x: (type(x).__name__, repr(x))):
            out.append(repr(k) + ":")
            _canon(obj[k], out)
            out.append(",")
        out.append("}")
    elif isinstance(obj, (list, tuple)):
        out.append("[" if isinstance(obj, list) else "(")
        for v in obj:
            _canon(v, out)
            out.append(",")
        out.append("]")
    elif type(obj).__module__ == "numpy" and hasattr(obj, "tolist"):
        out.append(f"np<{getattr(obj, 'dtype', '')}>")
        _canon(obj.tolist(), out)
    else:
        out.append(f"{type(obj).__name__}:{obj!r}")


def params_fingerprint(obj) -> str:
    out = []
    try:
        _canon(obj, out)
        return hashlib.sha256("".join(out).encode()).hexdigest()[:16]
    except Exception:  # noqa: BLE001
        return hashlib.sha256(pickle.dumps(obj, protocol=4)).hexdigest()[:16]


def rule_source_fingerprint(func) -> str:
    f0 = inspect.unwrap(func)
    try:
        src = inspect.getsource(f0)
    except (OSError, TypeError):
        src = repr(f0)
    return hashlib.sha256(src.encode()).hexdigest()[:16]


def function_set_classes():
    """date classes of the *function set* only: between two decorator dates the set of active
    rule implementations is constant (parameters play no role)."""
    ds = sorted(d for d in decorator_dates() if d.year >= 1980)
    lo = datetime.date(1980, 1, 1)
    ds = sorted({lo, *[d for d in ds if d >= lo]})
    return ds
