"""C13 -- time-unit variants of a column differ exactly by the documented factors.

Obligations
  K   module constants _M_PER_Y/_W_PER_Y/_D_PER_Y equal the factors documented in GEP-4
  A   converter algebra (E1 on the 12 real converters, all real x):
        A1 u_to_v(x) = x * per[u]/per[v] (relative tolerance 2^-48: 365.25/7 is not a binary float)
        A2 v_to_u(u_to_v(x)) = x (same tolerance)      A3 additivity u_to_v(a+b) = u_to_v(a)+u_to_v(b)
        A4 composition v_to_w(u_to_v(x)) = u_to_w(x)
  W   wiring, for every date class, exhaustive over the real function universe:
        W1 every rule / input column named <base>_<unit>[_<group>] has its three other unit variants
           in the universe (unless the documented cycle guard applies)
        W2 every derived node is `converter(source)` with the converter matching both names
           (closure of the real object) and E1 proves node(x) = x * per[u]/per[v]
        W3 derived nodes carry no rounding key
        W4 two hard-coded rules that differ in the unit only: one of them is computed from the other
           alone and E1 proves it equals the sibling times the factor (otherwise supplying one of
           them as data would break the relation; replayed through the public API)
        W5 an aggregate with a time unit whose sibling unit is supplied as data is the conversion of the
           supplied column (exhaustive over the aggregates of every function-set class)
        W6 a third unit of a hard-coded rule follows the supplied sibling column
  B   bounded stand-in: the API computes x_y, x_m, x_w, x_d together consistently and accepts
      an input in another unit (never counted as proved)
"""
from __future__ import annotations

import datetime
import inspect
import json
import re
from fractions import Fraction

import z3

from vt import env as venv
from vt import par, rules, solve, symx
from vt.report import ASSUMPTIONS, Report

TOL = Fraction(1, 2**48)


def documented_factors():
    """units per year from the table in docs/geps/gep-04.md"""
    txt = (venv.REPO / "docs" / "geps" / "gep-04.md").read_text(encoding="utf-8")
    per = {"y": Fraction(1)}
    for m in re.finditer(r"^\|\s*(Month|Week|Day)\s*\|\s*``_([mwd])``\s*\|\s*([0-9./ ]+?)\s*\|", txt, flags=re.M):
        expr = m.group(3).replace(" ", "")
        if "/" in expr:
            a, b = expr.split("/")
            per[m.group(2)] = Fraction(a) / Fraction(b)
        else:
            per[m.group(2)] = Fraction(expr)
    return per


def _real(fr):
    return symx.frac_to_z3real(fr)


def _close(a, b):
    """|a - b| <= TOL * |b|"""
    t = _real(TOL)
    return z3.And(a - b <= t * z3.If(b >= 0, b, -b), b - a <= t * z3.If(b >= 0, b, -b))


def _summ_conv(f):
    s = symx.summarise(f, sym_args={n: "float" for n in inspect.signature(inspect.unwrap(f)).parameters})
    (name, (x, _)), = s.args.items()
    if s.obligations:
        raise symx.Unsupported(f"converter has safety obligations: {s.obligations}")
    return x, symx.real_term(s.result)


def converter_frames(rep):
    """A5 (E3): a converter writes nothing -- it receives the source COLUMN (an array that is also the
    value of the source node, an entry of the result and possibly the caller's data), so scaling it in
    place would change the source variant"""
    import numpy

    from _gettsim import time_conversion as tc
    from vt import frame

    an = frame.Analyzer(str(venv.SRC))
    for u in "ymwd":
        for v in "ymwd":
            if u == v:
                continue
            nm = f"{u}_to_{v}"
            eff = an.effects.get(("_gettsim.time_conversion", nm))
            where = "src/_gettsim/time_conversion.py"
            if eff is None:
                rep.ob(f"A5:{nm} writes nothing", "unsupported", "E3", 0, where, "frame", "converter not found")
                continue
            w = sorted(x for x in eff.writes if not x.startswith("outer:"))
            st = "discharged" if not w and not eff.unknown_calls else "refuted" if w else "unknown"
            rep.ob(f"A5:{nm} writes nothing (its argument is the source column itself)", st, "E3", 0, where, "frame", f"writes {w} {[t for _, _, t in eff.write_sites][:2]}" if w else "")
            if w:
                arr = numpy.array([100.0, 250.5])
                keep = arr.copy()
                try:
                    getattr(tc, nm)(arr)
                except Exception:  # noqa: BLE001
                    pass
                changed = not numpy.array_equal(arr, keep)
                rep.violation(f"converter-writes:{nm}", f"{nm} modifies its argument: the column {keep.tolist()} passed in is {arr.tolist()} afterwards, so the source variant no longer differs from the converted one by the factor", {"obligation": f"A5:{nm}", "input": keep.tolist(), "after": arr.tolist(), "replay": "converter_frame", "converter": nm}, changed)


def algebra(rep, per):
    from _gettsim import time_conversion as tc

    consts = {"m": tc._M_PER_Y, "w": tc._W_PER_Y, "d": tc._D_PER_Y}
    for u, c in consts.items():
        ok = abs(Fraction(repr(float(c))) - per[u]) <= TOL * per[u]
        rep.ob(f"K:{u}_per_year == documented {per[u]}", "discharged" if ok else "refuted", "exact", 0, "src/_gettsim/time_conversion.py:8-10", "constant", f"module value {c!r}")
        if not ok:
            rep.violation(f"constant:{u}_per_y", f"module constant for unit {u} is {c!r}, documented {per[u]} (GEP-4)", {"obligation": f"K:{u}", "module_value": repr(c), "documented": str(per[u]), "replay": "x_y vs x_" + u})
    units = "ymwd"
    summ = {}
    for u in units:
        for v in units:
            if u == v:
                continue
            f = tc._time_conversion_functions.get(f"{u}_to_{v}")
            name = f"{u}_to_{v}"
            if f is None:
                rep.ob(f"A1:{name} exists", "refuted", "exact", 0, "src/_gettsim/time_conversion.py", "converter")
                rep.violation(f"converter-missing:{name}", f"no converter {name}", {"obligation": f"A1:{name}"}, False)
                continue
            rep.functions.add(f"src/_gettsim/time_conversion.py:{inspect.unwrap(f).__code__.co_firstlineno} {f.__name__}")
            try:
                x, r = _summ_conv(f)
            except symx.Unsupported as ex:
                rep.ob(f"A1:{name}", "unsupported", "z3", 0, "", "converter", str(ex))
                continue
            summ[(u, v)] = (x, r)
            F = per[u] / per[v]
            res = solve.check([z3.Not(_close(r, x * _real(F)))], 20)
            st = {"unsat": "discharged", "sat": "refuted"}.get(res.status, "unknown")
            rep.ob(f"A1:{name}(x) == x*{F}", st, res.backend, res.seconds, "src/_gettsim/time_conversion.py", "converter")
            if st == "refuted":
                xv = rules.model_inputs(res.model, type("S", (), {"args": {"value": (x, "float")}})())["value"]
                actual = f(xv)
                rep.violation(
                    f"converter:{name}",
                    f"{name}({xv}) = {actual!r}, documented factor gives {float(F) * xv!r}",
                    {"obligation": f"A1:{name}", "input": xv, "actual": actual, "expected": float(F) * xv},
                    failing_input_found=abs(actual - float(F) * xv) > 1e-9 * max(1.0, abs(xv)),
                )
            # additivity
            a, b = z3.Real("a"), z3.Real("b")
            add = z3.substitute(r, (x, a + b)) == z3.substitute(r, (x, a)) + z3.substitute(r, (x, b))
            res = solve.check([z3.Not(add)], 20)
            rep.ob(f"A3:{name} additive (commutes with group sums)", {"unsat": "discharged", "sat": "refuted"}.get(res.status, "unknown"), res.backend, res.seconds, "src/_gettsim/time_conversion.py", "converter")
    for (u, v), (x, r) in summ.items():
        if (v, u) in summ:
            x2, r2 = summ[(v, u)]
            back = z3.substitute(r2, (x2, r))
            res = solve.check([z3.Not(_close(back, x))], 20)
            rep.ob(f"A2:{v}_to_{u}({u}_to_{v}(x)) == x", {"unsat": "discharged", "sat": "refuted"}.get(res.status, "unknown"), res.backend, res.seconds, "", "converter")
        for w in units:
            if w in (u, v) or (v, w) not in summ or (u, w) not in summ:
                continue
            x2, r2 = summ[(v, w)]
            x3, r3 = summ[(u, w)]
            comp = z3.substitute(r2, (x2, r))
            res = solve.check([z3.Not(_close(comp, z3.substitute(r3, (x3, x))))], 20)
            rep.ob(f"A4:{v}_to_{w}({u}_to_{v}(x)) == {u}_to_{w}(x)", {"unsat": "discharged", "sat": "refuted"}.get(res.status, "unknown"), res.backend, res.seconds, "", "converter")
    return summ


def parse_name(name, groupings, units):
    """independent spec of the naming convention <base>_<unit>[_<group>] -> (base, unit, group) | None"""
    group = ""
    for g in groupings:
        if name.endswith("_" + g):
            group = "_" + g
            name = name[: -len(group)]
            break
    if len(name) >= 3 and name[-2] == "_" and name[-1] in units:
        return name[:-1], name[-1], group
    return None


def _wiring_worker(job):
    dates, per_s = job
    per = {k: Fraction(v) for k, v in per_s.items()}
    from _gettsim import time_conversion as tc
    from _gettsim.config import SUPPORTED_GROUPINGS, SUPPORTED_TIME_UNITS, TYPES_INPUT_VARIABLES

    groupings = sorted(SUPPORTED_GROUPINGS, key=len, reverse=True)
    units = list(SUPPORTED_TIME_UNITS)
    out = {"items": {}, "dates": [str(d) for d in dates], "n_checked": 0}
    seen = set()
    for d in dates:
        e = venv.Env(d)
        fno, fo = e.universe()
        allf = {**fno, **fo}
        data_cols = set(TYPES_INPUT_VARIABLES)
        names = set(allf) | data_cols
        # W1: availability of all four units
        for name in sorted(set(e.functions) | data_cols):
            p = parse_name(name, groupings, units)
            if p is None:
                continue
            base, unit, group = p
            func = e.functions.get(name)
            deps = set(inspect.signature(func).parameters) if func is not None else set()
            for v in units:
                if v == unit:
                    continue
                new = f"{base}{v}{group}"
                key = ("W1", name, new)
                if key in seen:
                    continue
                seen.add(key)
                out["n_checked"] += 1
                if new in names:
                    st, detail = "discharged", ""
                elif new in deps:
                    st, detail = "discharged", "cycle guard: the source itself takes the variant as input"
                else:
                    st, detail = "refuted", f"{new} is neither a function nor a data column at {d}"
                out["items"][str(key)] = {"name": f"W1:{name}->{new}", "status": st, "detail": detail, "date": str(d)}
        # W5: an aggregate (by group or by pointer) with a time unit whose other-unit sibling is SUPPLIED as
        # data becomes the conversion of the supplied column (the aggregate is not computed next to it):
        # one real load of the universe with one sibling column per aggregate
        aggs = {}
        for name, f in fno.items():
            cls = venv.classify_node(name, f)
            p = parse_name(name, groupings, units)
            if cls in ("aggregate_by_group", "aggregate_by_p_id") and p is not None:
                base, unit, group = p
                sib_u = "y" if unit != "y" else "m"
                sib = f"{base}{sib_u}{group}"
                key = ("W5", name, cls)
                if key not in seen and sib not in data_cols and (sib not in allf or venv.classify_node(sib, allf[sib]) == "time_conversion"):
                    aggs[name] = (sib, unit, sib_u, key)
        if aggs:
            import warnings

            from _gettsim.functions_loader import load_and_check_functions

            try:
                with warnings.catch_warnings():
                    warnings.simplefilter("ignore")
                    a2, _ = load_and_check_functions(functions_raw=e.functions, targets=sorted(aggs), data_cols=sorted(data_cols | {v[0] for v in aggs.values()}), aggregate_by_group_specs={}, aggregate_by_p_id_specs={})
            except Exception as ex:  # noqa: BLE001
                a2 = None
                out["items"][str(("W5", "load", str(d)))] = {"name": f"W5: universe with supplied sibling columns loads@{d}", "status": "unsupported", "detail": repr(ex)[:200], "date": str(d)}
            for name, (sib, unit, sib_u, key) in aggs.items():
                if a2 is None:
                    break
                seen.add(key)
                out["n_checked"] += 1
                g = a2.get(name)
                ok = g is not None and venv.classify_node(name, g) == "time_conversion" and list(inspect.signature(g).parameters) == [sib]
                out["items"][str(key)] = {"name": f"W5:{name} is the conversion of the supplied column {sib}", "status": "discharged" if ok else "refuted",
                                          "detail": "" if ok else f"with {sib} in the data, {name} is {venv.classify_node(name, g) if g is not None else 'absent'} reading {list(inspect.signature(g).parameters) if g is not None else None}: {name} and {sib} no longer differ by the factor", "date": str(d)}
        # W6: a hard-coded RULE x_u whose sibling x_v is supplied as data: a third unit x_w follows the supplied
        # column (conversions derived from data take precedence over those derived from the rule)
        rules6 = {}
        for name, f in fno.items():
            p = parse_name(name, groupings, units)
            if p is None or venv.classify_node(name, f) != "scalar_rule":
                continue
            base, unit, group = p
            others = [u for u in units if u != unit]
            sib, third = f"{base}{others[0]}{group}", f"{base}{others[1]}{group}"
            key = ("W6", name)
            if key in seen or sib in data_cols or third in data_cols:
                continue
            if all(x not in allf or venv.classify_node(x, allf[x]) == "time_conversion" for x in (sib, third)):
                rules6[name] = (sib, third, key)
        if rules6:
            import warnings

            from _gettsim.functions_loader import load_and_check_functions

            try:
                with warnings.catch_warnings():
                    warnings.simplefilter("ignore")
                    a3, _ = load_and_check_functions(functions_raw=e.functions, targets=sorted(v[1] for v in rules6.values()), data_cols=sorted(data_cols | {v[0] for v in rules6.values()}), aggregate_by_group_specs={}, aggregate_by_p_id_specs={})
            except Exception as ex:  # noqa: BLE001
                a3 = None
                out["items"][str(("W6", "load", str(d)))] = {"name": f"W6: universe with supplied sibling columns loads@{d}", "status": "unsupported", "detail": repr(ex)[:200], "date": str(d)}
            for name, (sib, third, key) in rules6.items():
                if a3 is None:
                    break
                seen.add(key)
                out["n_checked"] += 1
                g = a3.get(third)
                ok = g is not None and venv.classify_node(third, g) == "time_conversion" and list(inspect.signature(g).parameters) == [sib]
                out["items"][str(key)] = {"name": f"W6:{third} follows the supplied column {sib} (rule {name} exists)", "status": "discharged" if ok else "refuted",
                                          "detail": "" if ok else f"with {sib} in the data, {third} is {venv.classify_node(third, g) if g is not None else 'absent'} reading {list(inspect.signature(g).parameters) if g is not None else None}: {third} and {sib} no longer differ by the factor", "date": str(d)}
        # W4: explicit (hard-coded) rules that differ in the time unit only
        by = {}
        for name, func in e.functions.items():
            p = parse_name(name, groupings, units)
            if p:
                by.setdefault((p[0], p[2]), []).append((p[1], name, func))
        for (base, group), lst in by.items():
            if len(lst) < 2:
                continue
            for v, vname, vfunc in lst:
                sibs = {n: u for u, n, _ in lst if n != vname}
                key = ("W4", vname, inspect.unwrap(vfunc).__qualname__, tuple(sorted(sibs)))
                if key in seen:
                    continue
                seen.add(key)
                out["n_checked"] += 1
                args = [a for a in inspect.signature(inspect.unwrap(vfunc)).parameters]
                sib_args = [a for a in args if a in sibs]
                item = {"name": f"W4:{vname} is its sibling times the factor", "date": str(d), "status": "discharged", "detail": ""}
                if not sib_args:
                    # the other member of the pair must then be the derived one
                    others_direct = [n for _, n, f in lst if n != vname and vname in inspect.signature(inspect.unwrap(f)).parameters]
                    if not others_direct:
                        item["status"] = "refuted"
                        item["detail"] = f"{vname} and {sorted(sibs)} are both hard-coded and neither is computed from the other: supplying one of them as data breaks the factor relation"
                        item["pair"] = [vname, sorted(sibs)[0]]
                    out["items"][str(key)] = item
                    continue
                try:
                    s = symx.summarise(vfunc, conc_args=e.conc_params_for(vfunc))
                    sn = sib_args[0]
                    x = s.args[sn][0]
                    r = symx.real_term(s.result)
                    F = per[sibs[sn]] / per[v]
                    res = solve.check([z3.Not(_close(r, x * _real(F)))], 20)
                    if res.status == "sat":
                        item["status"] = "refuted"
                        item["detail"] = f"{vname} is not {sn} * {F} for inputs {rules.model_inputs(res.model, s)}"
                        item["pair"] = [vname, sn]
                    elif res.status != "unsat":
                        item["status"] = "unknown"
                except (symx.Unsupported, symx.PathAbort) as ex:
                    item["status"] = "unsupported"
                    item["detail"] = str(ex)
                out["items"][str(key)] = item
        # W2/W3: every derived node
        for name, f in allf.items():
            if venv.classify_node(name, f) != "time_conversion":
                continue
            f0 = inspect.unwrap(f)
            conv = dict(zip(f0.__code__.co_freevars, [c.cell_contents for c in f0.__closure__])).get("converter")
            (src,) = list(inspect.signature(f).parameters)
            key = ("W2", name, src, getattr(conv, "__name__", "?"))
            if key in seen:
                continue
            seen.add(key)
            out["n_checked"] += 1
            pn, ps = parse_name(name, groupings, units), parse_name(src, groupings, units)
            item = {"name": f"W2:{name}=conv({src})", "date": str(d), "status": "discharged", "detail": ""}
            out["items"][str(key)] = item
            if pn is None or ps is None or pn[0] != ps[0] or pn[2] != ps[2] or pn[1] == ps[1]:
                item["status"] = "refuted"
                item["detail"] = f"derived node {name} reads {src}: names do not differ in the unit only"
                continue
            u, v = ps[1], pn[1]
            want = tc._time_conversion_functions.get(f"{u}_to_{v}")
            try:
                s = symx.summarise(f0, sym_args={"x": "float"})
                x = s.args["x"][0]
                r = symx.real_term(s.result)
                F = per[u] / per[v]
                res = solve.check([z3.Not(_close(r, x * _real(F)))], 20)
                if res.status == "sat":
                    xv = rules.model_inputs(res.model, s)["x"]
                    item["status"] = "refuted"
                    item["detail"] = f"{name}({src}={xv}) = {f0(xv)!r} but {src} * {F} = {float(F) * xv!r} (converter {getattr(conv, '__name__', conv)})"
                    item["input"] = xv
                    item["actual"] = f0(xv)
                    item["expected"] = float(F) * xv
                elif res.status != "unsat":
                    item["status"] = "unknown"
            except symx.Unsupported as ex:
                item["status"] = "unsupported"
                item["detail"] = str(ex)
            if item["status"] == "discharged" and conv is not want:
                item["detail"] = f"converter object is {getattr(conv, '__name__', conv)}, semantically equal to {u}_to_{v}"
            info = getattr(f, "__info__", None) or {}
            if "params_key_for_rounding" in info:
                out["items"][str(("W3", name))] = {"name": f"W3:{name} has no rounding key", "status": "refuted", "detail": "derived time-unit node carries params_key_for_rounding", "date": str(d)}
            else:
                out["items"].setdefault(str(("W3", name)), {"name": f"W3:{name} has no rounding key", "status": "discharged", "detail": "", "date": str(d)})
    return out


def bounded_api(rep, seed):
    """E5 stand-in: request the four units together; feed an input in another unit."""
    import numpy
    import pandas as pd

    from _gettsim.interface import compute_taxes_and_transfers

    per = documented_factors()
    n_eval = 0
    distinct = set()
    bad = []
    for d in ("2019-01-01", "2023-07-01"):
        e = venv.Env(d)
        base = pd.DataFrame(
            {
                "p_id": [0, 1, 2],
                "hh_id": [0, 0, 1],
                "bruttolohn_m": [2345.67, 0.0, 5800.5],
                "wohnort_ost": [False, False, True],
                "alter": [40, 38, 55],
                "selbstständig": [False, False, False],
                "in_priv_krankenv": [False, False, False],
                "geburtsjahr": [1980, 1982, 1965],
                "ges_pflegev_hat_kinder": [True, False, False],
                "ges_pflegev_anz_kinder_bis_24": [1, 0, 0],
                "eink_selbst_m": [0.0, 0.0, 0.0],
                "ges_rente_m": [0.0, 0.0, 0.0],
                "sum_ges_rente_priv_rente_m": [0.0, 0.0, 0.0],
                "priv_rente_m": [0.0, 0.0, 0.0],
            }
        )
        col = "ges_rentenv_beitr_arbeitnehmer"
        targets = [f"{col}_{u}" for u in "ymwd"]
        try:
            res = compute_taxes_and_transfers(data=base, params=e.params, functions=e.functions, targets=targets)
        except Exception as ex:  # noqa: BLE001
            bad.append(f"{d}: API call with four unit targets failed: {ex!r}")
            continue
        n_eval += 1
        for u in "ymwd":
            for v in "ymwd":
                if u == v:
                    continue
                F = float(per[u] / per[v])
                a, b = res[f"{col}_{v}"].to_numpy(), res[f"{col}_{u}"].to_numpy() * F
                distinct.add((d, u, v))
                if not numpy.allclose(a, b, rtol=1e-12, atol=0):
                    bad.append(f"{d}: {col}_{v} != {col}_{u} * {F}: {a} vs {b}")
        # input in another unit
        alt = base.drop(columns=["bruttolohn_m"]).assign(bruttolohn_y=base["bruttolohn_m"] * 12)
        try:
            r1 = compute_taxes_and_transfers(data=base, params=e.params, functions=e.functions, targets=[f"{col}_m"])
            r2 = compute_taxes_and_transfers(data=alt, params=e.params, functions=e.functions, targets=[f"{col}_m"])
            n_eval += 2
            distinct.add((d, "input-unit"))
            if not numpy.allclose(r1[f"{col}_m"], r2[f"{col}_m"], rtol=1e-12, atol=1e-9):
                bad.append(f"{d}: supplying bruttolohn_y instead of bruttolohn_m changes {col}_m: {r1[f'{col}_m'].tolist()} vs {r2[f'{col}_m'].tolist()}")
        except Exception as ex:  # noqa: BLE001
            bad.append(f"{d}: supplying bruttolohn_y failed: {ex!r}")
    rep.bounded["api_cross_unit"] = {"evaluations": n_eval, "distinct_nontrivial": len(distinct), "rule": "2 dates x (4 unit targets of one contribution column, pairwise factor check; one input supplied per year instead of per month); distinct = (date, unit pair)", "failures": bad}
    for i, b in enumerate(bad):
        rep.violation(f"api-cross-unit:{i}", b, {"what": b, "kind": "bounded stand-in"}, True)


def replay_pair(date, vname, uname, per=None):
    """Supply `uname` as a data column and request `vname`: the two must differ by the factor."""
    import numpy

    from _gettsim.config import SUPPORTED_GROUPINGS, SUPPORTED_TIME_UNITS, TYPES_INPUT_VARIABLES
    from vt import popgen

    per = per or documented_factors()
    groupings = sorted(SUPPORTED_GROUPINGS, key=len, reverse=True)
    units = list(SUPPORTED_TIME_UNITS)
    e = venv.Env(datetime.date.fromisoformat(str(date)))
    df = popgen.population(["single", "pensioners"], year=e.date.year)
    vals = numpy.array([1234.5, 777.25, 31.0][: len(df)])
    df[uname] = vals
    roots = popgen.required_roots(e, [vname], list(df.columns))
    missing = [r for r in roots if r not in df.columns]
    for r in missing:
        df[r] = 0.0
    res = popgen.simulate(e, df, targets=[vname])
    pu, pv = parse_name(uname, groupings, units), parse_name(vname, groupings, units)
    F = float(per[pu[1]] / per[pv[1]])
    got = res[vname].to_numpy()
    want = vals * F
    bad = not numpy.allclose(got, want, rtol=1e-9, atol=1e-9)
    return {"violates": bool(bad), "what": f"with {uname}={vals.tolist()} supplied as data, {vname}={got.tolist()} but {uname}*{F}={want.tolist()}", "date": str(date)}


def run(tier="quick", seed=0, jobs=16):
    rep = Report("C13", tier, seed, "proof")
    rep.assumptions = [ASSUMPTIONS["A1"], "factors per year are those of the table in docs/geps/gep-04.md (12, 365.25/7, 365.25); equality up to relative 2^-48 because 365.25/7 is not a binary float",
                       "naming convention <base>_<unit>[_<group>] parsed by an independent suffix parser (spec), not by the module's regex"]
    rep.trusted = ["dags.signature.rename_arguments renames the single argument x to the source column", "z3 5.1.0 / cvc5 1.4.0", "E1 encoder (vt/symx.py)"]
    per = documented_factors()
    if set(per) != set("ymwd"):
        rep.ob("K:documented factors parsed from GEP-4", "unsupported", "parse", 0, "docs/geps/gep-04.md", "doc", str(per))
        return rep.finish()
    algebra(rep, per)
    converter_frames(rep)
    # the wiring depends on the set of active rule implementations only (no parameter is read):
    # one class per interval between decorator dates is exhaustive; thorough re-checks every
    # parameter date class as well
    dates = venv.function_set_classes() if tier == "quick" else rules.quick_dates()
    results = par.pmap(_wiring_worker, [(c, {k: str(v) for k, v in per.items()}) for c in par.chunks(dates, jobs)], jobs)
    items = {}
    n_checked = 0
    for st, job, res in results:
        if st != "ok":
            raise RuntimeError(res)
        n_checked += res["n_checked"]
        for k, v in res["items"].items():
            items.setdefault(k, v)
    rep.functions.add("src/_gettsim/time_conversion.py:275 create_time_conversion_functions (wiring checked on its output)")
    rep.functions.add("src/_gettsim/time_conversion.py:346 _create_function_for_time_unit.func")
    n_bulk = 0
    for k, it in sorted(items.items()):
        if it["status"] == "discharged":
            n_bulk += 1
            continue
        rep.ob(it["name"] + "@" + it["date"], it["status"], "z3", 0, "src/_gettsim/time_conversion.py", "wiring", it["detail"])
        if it["status"] == "refuted":
            found = True
            extra = {k2: it[k2] for k2 in ("input", "actual", "expected", "pair") if k2 in it}
            if "pair" in it:
                found = False
                for dd in (it["date"], "2015-01-01", "2023-01-01", "2005-01-01"):
                    try:
                        extra["api"] = replay_pair(dd, it["pair"][0], it["pair"][1], per)
                        found = bool(extra["api"]["violates"])
                        extra.pop("api_error", None)
                        if found:
                            break
                    except Exception as ex:  # noqa: BLE001
                        extra["api_error"] = repr(ex)
            rep.violation(it["name"], it["detail"] + (f" | API: {extra['api']['what']}" if "api" in extra else ""), {"obligation": it["name"], "date": it["date"], **extra}, failing_input_found=found)
    rep.add_counts(n_bulk, "z3+exact", 0.0, "wiring(W1-W3)")
    rep.samples = [o for o in rep.obligations[:3]] + [v for v in list(items.values())[:2]]
    try:
        bounded_api(rep, seed)
    except Exception as ex:  # noqa: BLE001
        rep.bounded["api_cross_unit"] = {"evaluations": 0, "distinct_nontrivial": 0, "rule": f"crashed: {ex!r}"}
    return rep.finish({"date_classes": len(dates), "wiring_items_distinct": len(items), "wiring_items_visited": n_checked, "documented_factors": {k: str(v) for k, v in per.items()}})


def _replay_converter(rp):
    import numpy

    from _gettsim import time_conversion as tc

    arr = numpy.array(rp["input"], dtype=float)
    keep = arr.copy()
    getattr(tc, rp["converter"])(arr)
    print(json.dumps({"before": keep.tolist(), "after": arr.tolist()}))
    return 0 if numpy.array_equal(arr, keep) else 1


def replay(path):
    _rp = json.loads(open(path).read())
    if _rp.get("replay") == "converter_frame":
        return _replay_converter(_rp)
    rp = json.loads(open(path).read())
    if "pair" in rp:
        r = replay_pair(rp["date"], rp["pair"][0], rp["pair"][1])
        print(json.dumps(r, indent=1))
        return 1 if r["violates"] else 0
    print(json.dumps(rp, indent=1))
    return 0
