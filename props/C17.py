"""C17 -- means-tested benefits are mutually exclusive as the priority rules say.

Lemmas over the E1 summaries of the real rules and the kernel contracts, per date class >= 2015
(one class per distinct set of rule versions), for one person r (A = arbeitsl_geld_2_m_bg,
K = kinderzuschl_m_bg, W = wohngeld_m_wthh, G = grunds_im_alter_m_eg):
  M1  A(r) > 0 and K(r) > 0                       unsat  (shared priority flags of the same row)
  M2  A(r) > 0 and W(r) > 0                       unsat  (wthh_id postcondition id = 100*hh + flag,
                                                          `any` contract with a Skolem member row,
                                                          the {0,1} injectivity lemma of C12)
  M3  G(r) > 0 and (A(r) > 0 or W(r) > 0)         unsat  (erwachsene_alle_rentner_hh)
  M4  G(r) > 0 and K(r) > 0                       unsat  (an adult of r's eg lives in r's household:
                                                          sum/count contracts with a Skolem member)
  M5  same bg => same wthh                         (the part-household flags are _bg rules with
                                                    _bg-only arguments; bg within hh)
  M6  K(r) > 0 => eink + K (+ Wohngeld entitlement) >= regelbedarf
  NV  non-vacuity: each benefit alone is satisfiable under the same hypotheses
Counter-models are replayed through the public API with the model's column values supplied as data.
"""
from __future__ import annotations

import datetime
import inspect
import json

import networkx as nx
import z3

from contracts import inputs as vin
from vt import env as venv
from vt import facts, par, popgen, rules, solve, symx
from vt.report import ASSUMPTIONS, Report

A, K, W, G = "arbeitsl_geld_2_m_bg", "kinderzuschl_m_bg", "wohngeld_m_wthh", "grunds_im_alter_m_eg"


def _val(m, t):
    v = m.eval(t, model_completion=True)
    if z3.is_true(v) or z3.is_false(v):
        return bool(z3.is_true(v))
    if z3.is_int_value(v):
        return v.as_long()
    if z3.is_rational_value(v):
        return float(v.numerator_as_long()) / float(v.denominator_as_long())
    return str(v)


def z3_vars(t):
    out = set()
    stack = [t]
    seen = set()
    while stack:
        x = stack.pop()
        if x.get_id() in seen:
            continue
        seen.add(x.get_id())
        if z3.is_const(x) and x.decl().kind() == z3.Z3_OP_UNINTERPRETED:
            out.add(x)
        stack.extend(x.children())
    return out


def _check_date(e):
    d = str(e.date)
    items = {}

    def put(name, status, backend="z3", seconds=0.0, detail="", **kw):
        items[f"{name}@{d}"] = {"name": name, "date": d, "status": status, "backend": backend, "seconds": seconds, "detail": detail, **kw}

    df = facts.DagFacts(e).run()
    dag = df.dag
    need = [A, K, W, G, "wohngeld_vorrang_bg", "kinderzuschl_vorrang_bg", "wohngeld_kinderzuschl_vorrang_bg", "erwachsene_alle_rentner_hh"]
    missing = [n for n in need if n not in df.result_terms]
    if missing:
        put("rule summaries available", "unsupported", detail=f"missing {missing}; unsupported: { {k: v for k, v in df.unsupported.items() if k in need} }")
        return items
    T = df.result_terms
    V = df.var
    # hypotheses: facts of every parent variable mentioned (non-negativity etc.)
    def hyps(*nodes):
        hs = []
        for n in nodes:
            for p in dag.predecessors(n):
                hs.extend(df.facts.get(p, []))
        return hs

    def model_cols(m, *nodes):
        cols = {}
        for n in nodes:
            for p in dag.predecessors(n):
                if p.endswith("_params") or df.types.get(p) is None:
                    continue
                cols[p] = _val(m, V(p))
        return cols

    # structure of the aggregates / grouping used in M2
    def agg_ok(n, kind, src, gid):
        if n not in df.fno or df.kind.get(n) != "aggregate_by_group":
            return False
        return facts.agg_kind(df.fno[n])[0] == kind and list(inspect.signature(df.fno[n]).parameters) == [src, gid]

    s_ok = agg_ok("wohngeld_vorrang_wthh", "any", "wohngeld_vorrang_bg", "wthh_id") and agg_ok("wohngeld_kinderzuschl_vorrang_wthh", "any", "wohngeld_kinderzuschl_vorrang_bg", "wthh_id")
    w_sig = list(inspect.signature(df.fno["wthh_id"]).parameters) if "wthh_id" in df.fno else None
    s_ok = s_ok and w_sig == ["hh_id", "wohngeld_vorrang_bg", "wohngeld_kinderzuschl_vorrang_bg"]
    put("ST the part-household flags are `any` aggregates of the bg flags over wthh_id, and wthh_id reads (hh_id, the two bg flags)", "discharged" if s_ok else "refuted", "graph", 0, f"wthh_id signature {w_sig}")

    def run(name, q, nodes, kind, extra=None):
        r = solve.check(q, 60)
        st = {"unsat": "discharged", "sat": "refuted"}.get(r.status, "unknown")
        kw = {}
        if st == "refuted":
            kw = {"cols": model_cols(r.model, *nodes), "targets": list(nodes), "kind": kind}
            if extra:
                kw.update(extra(r.model))
                for n in ("arbeitsl_geld_2_eink_m_bg", "arbeitsl_geld_2_regelbedarf_m_bg", "wohngeld_anspruchshöhe_m_bg"):
                    if n in dag:
                        kw["cols"].setdefault(n, _val(r.model, V(n)))
        put(name, st, r.backend, r.seconds, r.reason if st == "unknown" else "", **kw)

    run("M1 ALG II and Kinderzuschlag are never paid together", [*hyps(A, K), T[A] > 0, T[K] > 0], (A, K), "both-positive")
    run("M3 Grundsicherung im Alter excludes ALG II and Wohngeld", [*hyps(A, W, G), T[G] > 0, z3.Or(T[A] > 0, T[W] > 0)], (G, A, W), "g-positive")

    # M2: r and Skolem members j1, j2 of r's part-household
    def row(sfx):
        f1, f2, hh = z3.Bool("wohngeld_vorrang_bg" + sfx), z3.Bool("wohngeld_kinderzuschl_vorrang_bg" + sfx), z3.Int("hh_id" + sfx)
        return f1, f2, hh, 100 * hh + z3.If(z3.Or(f1, f2), 1, 0)

    f1r, f2r, hhr, wr = V("wohngeld_vorrang_bg"), V("wohngeld_kinderzuschl_vorrang_bg"), z3.Int("hh_id"), None
    wr = 100 * hhr + z3.If(z3.Or(f1r, f2r), 1, 0)
    f1a, f2a, hha, wa = row("#j1")
    f1b, f2b, hhb, wb = row("#j2")
    any_contract = [
        z3.Implies(V("wohngeld_vorrang_wthh"), z3.And(wa == wr, f1a)),
        z3.Implies(V("wohngeld_kinderzuschl_vorrang_wthh"), z3.And(wb == wr, f2b)),
        hhr >= 0, hha >= 0, hhb >= 0,
    ]
    run("M2 ALG II and Wohngeld are never paid together", [*hyps(A, W), *any_contract, T[A] > 0, T[W] > 0], (A, W), "both-positive")

    # M4: G>0 => some member m of r's eg is an adult, living in r's household
    if all(n in dag for n in ("anz_kinder_eg", "anz_personen_eg", "anz_erwachsene_hh", "anz_rentner_hh")) and "erwachsen" in df.result_terms:
        kind_m = z3.Bool("kind#m")
        erw_m = z3.substitute(T["erwachsen"], (V("kind"), kind_m)) if "kind" in dag else z3.Not(kind_m)
        agg_contract = [
            z3.Implies(V("anz_kinder_eg") != V("anz_personen_eg"), z3.Not(kind_m)),  # else sum(kind) = count
            V("anz_erwachsene_hh") >= z3.If(erw_m, 1, 0),  # m lives in r's household (eg within hh)
            V("anz_erwachsene_hh") >= 0, V("anz_rentner_hh") >= 0,
        ]
        alle = T["erwachsene_alle_rentner_hh"]
        run("M4 Grundsicherung im Alter and Kinderzuschlag are never paid together", [*hyps(G, K), *agg_contract, V("erwachsene_alle_rentner_hh") == alle, T[G] > 0, T[K] > 0], (G, K), "both-positive")
    else:
        put("M4 Grundsicherung im Alter and Kinderzuschlag are never paid together", "unsupported", detail="count columns not in the DAG")

    # M5
    i_f1, i_f2, j_f1, j_f2, ih, jh = z3.Bools("f1_i f2_i f1_j f2_j") + z3.Ints("hh_i hh_j")
    flag_args_ok = all(a.endswith("_bg") for n in ("wohngeld_vorrang_bg", "wohngeld_kinderzuschl_vorrang_bg") for a in inspect.signature(inspect.unwrap(df.fno[n])).parameters)
    put("M5a the two priority flags are _bg rules with _bg-only arguments (constant within a needs unit, C15)", "discharged" if flag_args_ok else "refuted", "graph")
    r = solve.check([i_f1 == j_f1, i_f2 == j_f2, ih == jh, 100 * ih + z3.If(z3.Or(i_f1, i_f2), 1, 0) != 100 * jh + z3.If(z3.Or(j_f1, j_f2), 1, 0)], 10)
    put("M5b same bg (same flags, same household) => same wthh_id", {"unsat": "discharged", "sat": "refuted"}.get(r.status, "unknown"), r.backend, r.seconds)

    # M6
    names = ["arbeitsl_geld_2_eink_m_bg", "arbeitsl_geld_2_regelbedarf_m_bg", "wohngeld_anspruchshöhe_m_bg", "_kinderzuschl_nach_vermög_check_m_bg"]
    if all(n in dag for n in names):
        stop = set(names) | {"anz_rentner_hh"}
        try:
            Kc = df.closed_form(K, stop=stop)
            eink, regel, wg = V(names[0]), V(names[1]), V(names[2])
            hs = [c for n in names for c in df.facts.get(n, [])]
            cut_cols = [n for n in dag.nodes if df.types.get(n) and not n.endswith("_params") and n in {str(x) for x in z3_vars(Kc)}]

            def extra(m, cut_cols=cut_cols):
                return {"cols": {n: _val(m, V(n)) for n in cut_cols}, "targets": [K]}

            run("M6 Kinderzuschlag is only paid where it (alone or with Wohngeld) covers the need", [*hs, Kc > 0, eink + Kc < regel, eink + wg + Kc < regel], (K,), "coverage", extra)
        except (KeyError, symx.Unsupported) as ex:
            put("M6 Kinderzuschlag covers the need", "unsupported", detail=repr(ex))
    else:
        put("M6 Kinderzuschlag covers the need", "unsupported", detail="columns missing")

    # non-vacuity
    for n in (A, K, W, G):
        r = solve.check([*hyps(n), T[n] > 0], 20)
        put(f"NV {n} > 0 is satisfiable", "discharged" if r.status == "sat" else ("refuted" if r.status == "unsat" else "unknown"), r.backend, r.seconds)
    return items


def _worker(dates):
    out = {}
    for d in dates:
        out.update(_check_date(venv.Env(d)))
    return out


def api_replay(it):
    e = venv.Env(datetime.date.fromisoformat(it["date"]))
    df = popgen.to_frame([popgen.person(0, 0)])
    for k, v in it["cols"].items():
        if k.endswith("_id"):
            continue
        df[k] = [v]
    targets = [t for t in it["targets"]]
    roots = popgen.required_roots(e, targets, list(df.columns))
    for r in roots:
        if r not in df.columns:
            df[r] = 0
    res = popgen.simulate(e, df, targets=targets)
    vals = {t: float(res[t].iloc[0]) if res[t].dtype != bool else bool(res[t].iloc[0]) for t in targets}
    if it["kind"] == "both-positive":
        bad = all(vals[t] > 0 for t in targets[:2])
    elif it["kind"] == "g-positive":
        bad = vals[targets[0]] > 0 and any(vals[t] > 0 for t in targets[1:])
    else:
        c = it["cols"]
        k = vals[targets[0]]
        bad = k > 0 and c["arbeitsl_geld_2_eink_m_bg"] + k < c["arbeitsl_geld_2_regelbedarf_m_bg"] and c["arbeitsl_geld_2_eink_m_bg"] + c["wohngeld_anspruchshöhe_m_bg"] + k < c["arbeitsl_geld_2_regelbedarf_m_bg"]
    return bool(bad), vals


def replay(path):
    rp = json.loads(open(path).read())
    if "item" in rp and "cols" in rp["item"]:
        bad, vals = api_replay(rp["item"])
        print(json.dumps({"violates": bad, "values": vals}))
        return 1 if bad else 0
    print(json.dumps(rp, indent=1))
    return 0


def run(tier="quick", seed=0, jobs=16):
    rep = Report("C17", tier, seed, "proof")
    rep.assumptions = [ASSUMPTIONS["A1"], ASSUMPTIONS["A2"], vin.describe(),
                       "kernel contracts used at the cut points (proved under C11/C12): wthh_id = 100*hh_id + [flag1 or flag2]; grouped_any true => some member of the group has the flag; sum of a 0/1 column over a group equals the count only if every member has 1; a sum of non-negatives over a household is at least the term of each member",
                       "VALID: members of an Einstandsgemeinschaft live in one household",
                       "rounding=True"]
    rep.trusted = ["z3 5.1.0 / cvc5 1.4.0", "E1 encoder", "dags graph construction"]
    if tier == "quick":
        classes = sorted({d for d in venv.function_set_classes() if d >= rules.D2015} | {rules.D2015})
    else:
        classes = [c[0] for c in venv.date_classes(since=rules.D2015, until=venv.last_parameter_date())]
    items = {}
    for st, job, res in par.pmap(_worker, par.chunks(classes, jobs), jobs):
        if st != "ok":
            raise RuntimeError(res)
        items.update(res)
    for k, it in sorted(items.items()):
        rep.ob(k, it["status"], it["backend"], it["seconds"], "src/_gettsim/transfers", it.get("kind", "lemma"), it.get("detail", ""))
        if it["status"] == "refuted":
            if "cols" in it:
                try:
                    bad, vals = api_replay(it)
                except Exception as ex:  # noqa: BLE001
                    bad, vals = False, repr(ex)
                rep.violation(it["name"], f"{it['name']} fails at {it['date']}: with columns {it['cols']} the API returns {vals}", {"item": it, "obligation": k}, failing_input_found=bad)
            else:
                rep.violation(it["name"], f"{it['name']} fails at {it['date']}: {it.get('detail', '')}", {"obligation": k}, True)
    # the kernel contract M2/M5 rest on is discharged here as well (modularity: a change inside
    # wthh_id_numpy is visible to C17 only through this contract)
    from props import C12 as c12
    from vt import kernels

    c12.recheck_kernel(rep, "wthh_id_numpy", "KC", "the part-household contract used by M2/M5 does not hold (members with and without priority share a part-household, so ALG II and Wohngeld can be paid together)")
    rep.functions |= {"src/_gettsim/transfers/arbeitsl_geld_2/arbeitsl_geld_2.py arbeitsl_geld_2_m_bg", "src/_gettsim/transfers/kinderzuschl/kinderzuschl.py kinderzuschl_m_bg", "src/_gettsim/transfers/wohngeld.py wohngeld_m_wthh", "src/_gettsim/transfers/grunds_im_alter.py grunds_im_alter_m_eg",
                      "src/_gettsim/transfers/benefit_checks/benefit_checks.py wohngeld_vorrang_bg / kinderzuschl_vorrang_bg / wohngeld_kinderzuschl_vorrang_bg", "src/_gettsim/demographic_vars.py erwachsene_alle_rentner_hh / erwachsen", "src/_gettsim/groupings.py wthh_id_numpy (by contract)"}
    rep.samples = rep.obligations[:4]
    return rep.finish({"date_classes": len(classes)})
