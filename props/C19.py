"""C19 -- social-insurance contributions follow the statutory shape in the wage.

Per date class >= 2015 (deduplicated by the content of the sozialv_beitr parameters and the set
of active rule versions), per branch X in {ges_rentenv, ges_krankenv, ges_pflegev, arbeitsl_v}:
the strongest postconditions (E1) of the real rules on the path bruttolohn_m -> X_beitr_arbeit-
nehmer_m are composed along the REAL DAG into f_X(w, other inputs); nodes that do not depend on
the wage are shared symbols constrained by their proved facts. Regular employee: selbstständig
= in_priv_krankenv = False. Obligations (all w >= 0, east/west, children, age symbolic):
  N  f(w) >= 0
  M  w1 <= w2  =>  f(w1) <= f(w2)                    (two copies, same non-wage symbols)
  Z  w <= mini-job limit (no pension part) => f(w) = 0
  C  w >= assessment ceiling => f(w) = f(ceiling)
  G  at the upper transition-zone boundary G: for G < w2 <= G+1: f(w2) - f(G) <= w2 - G
     (with M: no step at G, i.e. the zone formula meets the regular one)
  T  inside the zone: employee + employer = total (midijob sum node), per branch
Counter-models are replayed through the public API on a one-person table.
"""
from __future__ import annotations

import datetime
import inspect
import json
from fractions import Fraction

import networkx as nx
import z3

from contracts import inputs as vin
from vt import env as venv
from vt import facts, par, popgen, rules, solve, symx
from vt.report import ASSUMPTIONS, Report

BRANCHES = ["ges_rentenv", "ges_krankenv", "ges_pflegev", "arbeitsl_v"]


def _targets(e):
    t = []
    for b in BRANCHES:
        t += [f"{b}_beitr_arbeitnehmer_m", f"{b}_beitr_arbeitgeber_m"]
    return t


def _val(model, term):
    v = model.eval(term, model_completion=True)
    if z3.is_true(v) or z3.is_false(v):
        return bool(z3.is_true(v))
    if z3.is_int_value(v):
        return v.as_long()
    if z3.is_rational_value(v):
        return float(Fraction(v.numerator_as_long(), v.denominator_as_long()))
    return str(v)


def _worker(dates):
    out = {"items": {}, "seen": 0, "solver_s": 0.0}
    seen = set()
    for d in dates:
        e = venv.Env(d)
        fp = (venv.params_fingerprint({k: v for k, v in e.params["sozialv_beitr"].items() if k != "datum"}),
              tuple(sorted((n, inspect.unwrap(f).__qualname__) for n, f in e.functions.items() if "beitr" in n or "midijob" in n or "minijob" in n or "gleitzone" in n or "geringf" in n)))
        out["seen"] += 1
        if fp in seen:
            continue
        seen.add(fp)
        _check_date(e, out)
    return out


def compose(e):
    """-> dict with the facts pass and the closed forms f_X(w, ...) of the four employee contributions"""
    out = {"items": {}, "solver_s": 0.0}
    res = _check_date(e, out, only_compose=True)
    return res


def _check_date(e, out, only_compose=False):
    d = str(e.date)
    T = _targets(e)
    sums = [n for n in e.functions if "midijob_sum_arbeitnehmer_arbeitgeber_m" in n]
    df = facts.DagFacts(e, targets=sorted(set(T + sums))).run()
    dag = df.dag

    def put(name, status, backend="z3", seconds=0.0, detail="", **kw):
        out["items"][f"{name}@{d}"] = {"name": name, "date": d, "status": status, "backend": backend, "seconds": seconds, "detail": detail, **kw}

    for n, why in df.unsupported.items():
        put(f"rule {n} inside the E1 subset", "unsupported", detail=why)
    if "bruttolohn_m" not in dag:
        put("bruttolohn_m is an input of the contribution DAG", "refuted", "graph")
        return
    wage_dep = nx.descendants(dag, "bruttolohn_m")
    w = df.var("bruttolohn_m")
    w1, w2 = z3.Real("bruttolohn_m#1"), z3.Real("bruttolohn_m#2")
    # shared preconditions: facts of every node that does not depend on the wage
    shared = []
    for n in dag.nodes:
        if n not in wage_dep and n != "bruttolohn_m":
            shared.extend(df.facts.get(n, []))
    shared.extend(vin.relational_clauses({n: df.var(n) for n in dag.nodes if df.kind.get(n) == "input" and df.types.get(n)}))
    regular = []
    for n in ("selbstständig", "in_priv_krankenv"):
        if n in dag:
            regular.append(df.var(n) == False)  # noqa: E712
    # cut points: aggregates / groupings / opaque nodes, and wage-independent scalar rules whose
    # own closed form is large (e.g. the pension computation behind the pensioner contribution);
    # small wage-independent rules (ceilings, rates, limits) are inlined down to the inputs
    stop = set()
    small = {}
    for n in nx.topological_sort(dag):
        if n in wage_dep or n == "bruttolohn_m":
            continue
        if n not in df.result_terms:
            stop.add(n)
            continue
        parents = [p for p in dag.predecessors(n) if not p.endswith("_params")]
        if all((df.kind.get(p) == "input") or (p in small) or (p in stop and p not in df.result_terms) for p in parents):
            size = 1 + sum(small.get(p, 1) for p in parents)
            if size <= 16:
                small[n] = size
                continue
        stop.add(n)
    mj = df.var("minijob_grenze") if "minijob_grenze" in dag else None
    if mj is not None and "minijob_grenze" in df.consts:
        mj = df.consts["minijob_grenze"]
    if only_compose:
        forms = {}
        for b in BRANCHES:
            tgt = f"{b}_beitr_arbeitnehmer_m"
            if tgt in dag:
                try:
                    forms[b] = df.closed_form(tgt, stop=stop)
                except (KeyError, symx.Unsupported):
                    pass
        ceils = {}
        for b in BRANCHES:
            cn = "_ges_rentenv_beitr_bemess_grenze_m" if b in ("ges_rentenv", "arbeitsl_v") else "_ges_krankenv_beitr_bemess_grenze_m"
            if cn in dag:
                ceils[b] = df.closed_form(cn, stop=stop) if (cn in df.result_terms and cn not in stop) else df.var(cn)
        # pensioner contributions as functions of the pension sum (cut there)
        pens = {}
        pv = "sum_ges_rente_priv_rente_m"
        if pv in dag:
            stop_p = set(stop) | {pv}
            for n in dag.nodes:
                if n.endswith("_beitr_rentner_m") and n in df.result_terms and pv in nx.ancestors(dag, n):
                    try:
                        pens[n] = df.closed_form(n, stop=stop_p)
                    except (KeyError, symx.Unsupported):
                        pass
        return {"df": df, "w": w, "forms": forms, "base": [*shared, *regular], "ceil": ceils, "stop": stop, "wage_dep": wage_dep, "pens": pens, "pension_var": df.var(pv) if pv in dag else None}
    for b in BRANCHES:
        tgt = f"{b}_beitr_arbeitnehmer_m"
        if tgt not in dag:
            put(f"{b}: employee contribution exists", "refuted", "graph")
            continue
        try:
            f = df.closed_form(tgt, stop=stop)
        except (KeyError, symx.Unsupported) as ex:
            put(f"{b}: composition along the DAG", "unsupported", detail=repr(ex))
            continue
        f1 = z3.substitute(f, (w, w1))
        f2 = z3.substitute(f, (w, w2))
        base = [*shared, *regular]
        pens = []
        for n in nx.ancestors(dag, tgt):
            if n.endswith("_beitr_rentner_m") and df.types.get(n) == "float":
                pens.append((df.closed_form(n, stop=stop) if (n in df.result_terms and n not in stop) else df.var(n)) == 0)
        ceil_name = "_ges_rentenv_beitr_bemess_grenze_m" if b in ("ges_rentenv", "arbeitsl_v") else "_ges_krankenv_beitr_bemess_grenze_m"
        ceil = (df.closed_form(ceil_name, stop=stop) if ceil_name in df.result_terms and ceil_name not in stop else df.var(ceil_name)) if ceil_name in dag else None
        G = e.params["sozialv_beitr"].get("geringfügige_eink_grenzen_m", {}).get("midijob")
        obls = {
            "N non-negative": [*base, w >= 0, f < 0],
            "M non-decreasing in the wage": [*base, w1 >= 0, w1 <= w2, f1 > f2],
        }
        if mj is not None:
            obls["Z zero for marginal employment"] = [*base, *pens, w >= 0, w <= mj, f != 0]
        if ceil is not None:
            obls["C constant above the assessment ceiling"] = [*base, w1 >= ceil, w2 == ceil, f1 != f2]
        if G is not None:
            Gz = symx.frac_to_z3real(Fraction(repr(float(G))))
            obls["G no step at the upper transition-zone boundary"] = [*base, w1 == Gz, w2 > Gz, w2 <= Gz + 1, f2 - f1 > w2 - w1]
        for name, q in obls.items():
            r = solve.check(q, 60)
            out["solver_s"] += r.seconds
            st = {"unsat": "discharged", "sat": "refuted"}.get(r.status, "unknown")
            extra = {}
            if st == "refuted":
                m = r.model
                inp = {}
                for n in dag.nodes:
                    if df.kind.get(n) == "input" and df.types.get(n):
                        inp[n] = _val(m, df.var(n))
                extra = {"inputs": inp, "w": _val(m, w), "w1": _val(m, w1), "w2": _val(m, w2), "cut": {n: _val(m, df.var(n)) for n in dag.nodes if df.kind.get(n) not in ("input", "params", "scalar_rule") and df.types.get(n)}}
            put(f"{b}: {name}", st, r.backend, r.seconds, r.reason if st == "unknown" else "", branch=b, target=tgt, kind=name[0], **extra)
        # T: shares sum to the total inside the zone
        sum_nodes = [n for n in dag.nodes if n.endswith("midijob_sum_arbeitnehmer_arbeitgeber_m") and b in n]
        an = [n for n in dag.nodes if n.startswith("_") and b in n and n.endswith("midijob_arbeitnehmer_m")]
        ag = [n for n in dag.nodes if n.startswith("_") and b in n and n.endswith("midijob_arbeitgeber_m")]
        if sum_nodes and an and ag:
            try:
                fs, fa, fg = (df.closed_form(x, stop=stop) for x in (sum_nodes[0], an[0], ag[0]))
                zone = df.closed_form("in_gleitzone", stop=stop)
                r = solve.check([*base, w >= 0, zone, fa + fg != fs], 60)
                out["solver_s"] += r.seconds
                st = {"unsat": "discharged", "sat": "refuted"}.get(r.status, "unknown")
                extra = {}
                if st == "refuted":
                    extra = {"inputs": {n: _val(r.model, df.var(n)) for n in dag.nodes if df.kind.get(n) == "input" and df.types.get(n)}, "w": _val(r.model, w),
                             "cut": {n: _val(r.model, df.var(n)) for n in dag.nodes if df.kind.get(n) not in ("input", "params", "scalar_rule") and df.types.get(n)}}
                put(f"{b}: T employee + employer = total inside the transition zone", st, r.backend, r.seconds, "", branch=b, target=an[0], kind="T", parts=[an[0], ag[0], sum_nodes[0]], **extra)
            except (KeyError, symx.Unsupported) as ex:
                put(f"{b}: T composition", "unsupported", detail=repr(ex))
        else:
            put(f"{b}: T transition-zone share nodes present", "refuted", "graph", 0.0, f"sum={sum_nodes} an={an} ag={ag}")


def api_eval(date, inputs, wages, targets, cut=None):
    """one-person table(s) through the public API; values of cut nodes (aggregates the composition
    stopped at) are supplied as data columns, which the API allows for any computable column"""
    e = venv.Env(datetime.date.fromisoformat(date))
    rows = []
    for i, wv in enumerate(wages):
        kw = {k: v for k, v in inputs.items() if k in popgen.input_types() and k not in ("p_id", "hh_id", "bruttolohn_m")}
        for k in list(kw):
            if k.startswith("p_id_"):
                kw[k] = -1
        rows.append(popgen.person(i, i, **{**kw, "bruttolohn_m": float(wv)}))
    df = popgen.to_frame(rows)
    for k, v in (cut or {}).items():
        if k.endswith("_id") or isinstance(v, str):
            continue
        df[k] = [v] * len(df)
    roots = popgen.required_roots(e, targets, list(df.columns))
    for r in roots:
        if r not in df.columns:
            df[r] = inputs.get(r, 0)
    res = popgen.simulate(e, df, targets=targets)
    return res


def _replay_item(it):
    k = it["kind"]
    tgt = it["target"]
    try:
        if k in ("M", "C", "G"):
            res = api_eval(it["date"], it.get("inputs", {}), [it["w1"], it["w2"]], [tgt], it.get("cut"))
            a, b = float(res[tgt].iloc[0]), float(res[tgt].iloc[1])
            if k == "M":
                bad = a > b + 1e-9
                what = f"{tgt}: wage {it['w1']} -> {a}, wage {it['w2']} -> {b} (decreasing)"
            elif k == "C":
                bad = abs(a - b) > 1e-9
                what = f"{tgt}: wage {it['w1']} -> {a} but at the ceiling {it['w2']} -> {b}"
            else:
                bad = b - a > (it["w2"] - it["w1"]) + 1e-9
                what = f"{tgt}: step at the zone boundary: wage {it['w1']} -> {a}, wage {it['w2']} -> {b}"
        elif k == "T":
            res = api_eval(it["date"], it.get("inputs", {}), [it["w"]], it["parts"], it.get("cut"))
            a, g, s = (float(res[p].iloc[0]) for p in it["parts"])
            bad = abs(a + g - s) > 1e-9
            what = f"wage {it['w']}: {it['parts'][0]}={a} + {it['parts'][1]}={g} != {it['parts'][2]}={s}"
        else:
            res = api_eval(it["date"], it.get("inputs", {}), [it["w"]], [tgt], it.get("cut"))
            a = float(res[tgt].iloc[0])
            bad = a < -1e-12 if k == "N" else abs(a) > 1e-12
            what = f"{tgt}: wage {it['w']} -> {a}"
        return bool(bad), what
    except Exception as ex:  # noqa: BLE001
        return False, f"replay failed: {ex!r}"


def replay(path):
    rp = json.loads(open(path).read())
    if "item" in rp:
        bad, what = _replay_item(rp["item"])
        print(json.dumps({"violates": bad, "what": what}, indent=1))
        return 1 if bad else 0
    print(json.dumps(rp, indent=1))
    return 0


def run(tier="quick", seed=0, jobs=16):
    rep = Report("C19", tier, seed, "proof")
    rep.assumptions = [ASSUMPTIONS["A1"], ASSUMPTIONS["A2"], ASSUMPTIONS["A4"], vin.describe(),
                       "regular employee: selbstständig = in_priv_krankenv = False; for Z the wage-independent pension parts are 0",
                       "rounding=True: minijob_grenze and midijob_faktor_f enter through the C10 wrapper contract",
                       "nodes that do not depend on bruttolohn_m are free symbols constrained by their proved facts (vt/facts.py)"]
    rep.trusted = ["dags graph construction from argument names", "z3 5.1.0 / cvc5 1.4.0", "E1 encoder"]
    classes = [c[0] for c in venv.date_classes(since=rules.D2015, until=venv.last_parameter_date())]
    results = par.pmap(_worker, par.chunks(classes, jobs), jobs)
    items = {}
    seen = 0
    ss = 0.0
    for st, job, res in results:
        if st != "ok":
            raise RuntimeError(res)
        seen += res["seen"]
        ss += res["solver_s"]
        for k, v in res["items"].items():
            items.setdefault(k, v)
    # the same (params, rule versions) content may have been checked by several workers: dedupe by name+detail is not needed, keep all
    for k, it in sorted(items.items()):
        rep.ob(k, it["status"], it["backend"], it["seconds"], "src/_gettsim/social_insurance_contributions", it.get("kind", ""), it.get("detail", ""))
        if it["status"] == "refuted":
            if "kind" in it and "target" in it:
                bad, what = _replay_item(it)
                rep.violation(f"{it['name']}", f"{it['name']} at {it['date']}: {what}", {"item": it, "obligation": k}, failing_input_found=bad)
            else:
                rep.violation(k, f"{k}: {it.get('detail', '')}", {"obligation": k, "detail": it.get("detail", "")}, True)
    rep.functions |= {f"src/_gettsim/social_insurance_contributions/{m}.py (all rules on the path bruttolohn_m -> *_beitr_arbeitnehmer_m / _arbeitgeber_m)" for m in ("ges_rentenv", "ges_krankenv", "ges_pflegev", "arbeitsl_v", "eink_grenzen", "beitr_bemess_grenzen")}
    rep.samples = rep.obligations[:4]
    return rep.finish({"date_classes": len(classes), "distinct_contents_checked": len({it["date"] for it in items.values()}), "classes_visited": seen})
