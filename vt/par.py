"""Process pool helper (fork). Workers return plain (picklable) data, never z3 objects."""
from __future__ import annotations

import multiprocessing as mp
import os
import traceback


def _run(args):
    fn, item = args
    try:
        return ("ok", item, fn(item))
    except Exception:  # noqa: BLE001
        return ("crash", item, traceback.format_exc())


def pmap(fn, items, jobs=16):
    """[(status, item, result)] in input order; status 'ok' | 'crash'."""
    items = list(items)
    jobs = max(1, min(jobs, len(items), os.cpu_count() or 1))
    if jobs == 1 or len(items) <= 1:
        return [_run((fn, it)) for it in items]
    ctx = mp.get_context("fork")
    with ctx.Pool(jobs, maxtasksperchild=None) as pool:
        return pool.map(_run, [(fn, it) for it in items], chunksize=1)


def chunks(seq, n):
    """split seq into n contiguous chunks (some may be empty -> dropped)"""
    seq = list(seq)
    k, m = divmod(len(seq), n)
    out = []
    i = 0
    for j in range(n):
        size = k + (1 if j < m else 0)
        if size:
            out.append(seq[i : i + size])
        i += size
    return out
