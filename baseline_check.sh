#!/bin/sh
# Run the repository's pinned test suite (guard OFF) and compare with BASELINE.json stable_pass.
OUT=${1:-/tmp/verif_baseline.junit.xml}
cd /repo && env -u GETTSIM_VERIF /venv/bin/python -m pytest -ra -q -p no:cacheprovider --timeout=900 --continue-on-collection-errors -n 8 --junitxml="$OUT" >/tmp/verif_baseline.log 2>&1
/venv/bin/python - "$OUT" <<'PY'
import json, sys, xml.etree.ElementTree as ET
base = json.load(open('/root/.vp/BASELINE.json'))
want = set(base['stable_pass'])
root = ET.parse(sys.argv[1]).getroot()
passed = set()
for tc in root.iter('testcase'):
    name = f"{tc.get('classname')}::{tc.get('name')}"
    bad = any(ch.tag in ('failure', 'error', 'skipped') for ch in tc)
    if not bad:
        passed.add(name)
def norm(s):
    return s.encode('unicode_escape').decode() if not s.isascii() else s
passed_n = {norm(p) for p in passed} | passed
missing = [w for w in want if w not in passed_n]
print(f"stable_pass={len(want)} passed_now={len(passed)} missing={len(missing)}")
for m in missing[:20]:
    print("MISSING", m)
sys.exit(1 if missing else 0)
PY
