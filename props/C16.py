"""C16 -- outputs are finite, non-negative and within statutory caps.

Per date class >= 2015 (deduplicated by the content of the facts that matter), assume-guarantee
over the REAL DAG of the default targets (vt/facts.py):
  F   finiteness: for every scalar rule of the DAG the E1 obligations "divisor non-zero" and
      "no inf-inf / 0*inf / inf reaching a value" hold on every path under VALID and the proved
      facts of its parents (with A1 these are the only NaN / infinity sources)
  N   every default target >= 0: either a fact proved node by node in the assume-guarantee pass
      (candidate `v >= 0` kept only when z3 proves it from the rule's strongest postcondition and
      the parents' kept facts) or, for the contribution targets, from the closed form composed along
      the DAG (as in C19)
  C   caps the parameters encode (each a z3 query over E1 summaries):
        ALG II after the priority checks <= before; Wohngeld paid <= entitlement; Kinderzuschlag
        paid <= amount after the wealth check; Elterngeld <= höchstbetrag + sibling + multiples
        bonus (+ rounding step); each employee contribution f(w) <= f(assessment ceiling);
        Grundrente supplement <= bonus points * capped months * pension value * capped Zugangsfaktor
A refuted fact is replayed through the public API (cut-node values supplied as data columns).
"""
from __future__ import annotations

import datetime
import inspect
import json
from fractions import Fraction

import z3

from contracts import inputs as vin
from props import C19 as c19
from vt import env as venv
from vt import facts, par, popgen, rules, solve, symx
from vt.report import ASSUMPTIONS, Report


def _val(m, t):
    v = m.eval(t, model_completion=True)
    if z3.is_true(v) or z3.is_false(v):
        return bool(z3.is_true(v))
    if z3.is_int_value(v):
        return v.as_long()
    if z3.is_rational_value(v):
        return float(v.numerator_as_long()) / float(v.denominator_as_long())
    if z3.is_algebraic_value(v):
        a = v.approx(10)
        return float(a.numerator_as_long()) / float(a.denominator_as_long())
    return str(v)


def _cols(m, df, term_or_terms):
    from props.C17 import z3_vars

    terms = term_or_terms if isinstance(term_or_terms, (list, tuple)) else [term_or_terms]
    names = {str(x) for t in terms for x in z3_vars(t)}
    return {n: _val(m, df.var(n)) for n in df.dag.nodes if df.types.get(n) and not n.endswith("_params") and n in names}


def _check_date(e):
    from _gettsim.config import DEFAULT_TARGETS

    d = str(e.date)
    items = {}

    def put(name, status, backend="z3", seconds=0.0, detail="", **kw):
        items[f"{name}@{d}"] = {"name": name, "date": d, "status": status, "backend": backend, "seconds": seconds, "detail": detail, **kw}

    comp = c19.compose(e)  # contribution sub-DAG (own facts pass on the 8 contribution targets)
    df = facts.DagFacts(e).run()
    dag = df.dag
    V = df.var
    T = df.result_terms
    for n, why in df.unsupported.items():
        put(f"rule {n} inside the E1 subset", "unsupported", detail=why)
    # ---- F
    nF = 0
    for node, s in df.summaries.items():
        pre = df.pre_of(list(s.args))
        for o in s.obligations:
            if o.kind not in ("div0", "infarith") or "constant" in o.detail:
                continue
            nF += 1
            r = solve.check([*pre, o.cond], 20)
            if r.status == "unsat":
                continue
            name = f"F {node}: {o.kind} {o.detail[:60]} [{o.where.split('/')[-1]}]"
            if r.status == "sat":
                put(name, "refuted", r.backend, r.seconds, "", cols=rules.model_inputs(r.model, s), targets=[node], kind="finite")
            else:
                put(name, "unknown", r.backend, r.seconds, r.reason)
    for node in df.summaries:
        if node in T and df.types.get(node) != "bool":
            pass
    put(f"F all {nF} divisor / infinity obligations of the {len(df.summaries)} scalar rules", "discharged", "z3", 0, "(individual failures are listed separately)", n=nF)
    # ---- N
    contrib = {f"{b}_beitr_arbeitnehmer_m": b for b in c19.BRANCHES}
    for t in sorted(DEFAULT_TARGETS, key=lambda x: x == "sozialv_beitr_arbeitnehmer_m"):
        if t not in dag or df.types.get(t) is None:
            continue
        v = V(t)
        if any(f.eq(v >= 0) for f in df.facts.get(t, [])):
            put(f"N {t} >= 0", "discharged", "z3", 0, "fact kept by the assume-guarantee pass")
            continue
        if t in contrib and contrib[t] in comp["forms"]:
            f = comp["forms"][contrib[t]]
            r = solve.check([*comp["base"], comp["w"] >= 0, f < 0], 60)
            st = {"unsat": "discharged", "sat": "refuted"}.get(r.status, "unknown")
            kw = {}
            if st == "refuted":
                cdf = comp["df"]
                kw = {"cols": {n: _val(r.model, cdf.var(n)) for n in cdf.dag.nodes if (cdf.kind.get(n) == "input" or (n in comp["stop"] and cdf.kind.get(n) != "params")) and cdf.types.get(n)}, "targets": [t], "kind": "nonneg"}
            put(f"N {t} >= 0", st, r.backend, r.seconds, "closed form along the contribution DAG", **kw)
            continue
        if t == "sozialv_beitr_arbeitnehmer_m" and t in T:
            parts = [a for a in df.summaries[t].args]
            ok = all((p in contrib and f"N {p} >= 0@{d}" in items and items[f"N {p} >= 0@{d}"]["status"] == "discharged") for p in parts)
            hs = [V(p) >= 0 for p in parts] if ok else []
            r = solve.check([*hs, *df.pre_of(parts), T[t] < 0], 30)
            put(f"N {t} >= 0", {"unsat": "discharged", "sat": "refuted"}.get(r.status, "unknown"), r.backend, r.seconds, "sum of the four non-negative contributions")
            continue
        if t in T:
            pre = df.pre_of(list(df.summaries[t].args))
            r = solve.check([*pre, T[t] < 0], 30)
            st = {"unsat": "discharged", "sat": "refuted"}.get(r.status, "unknown")
            kw = {}
            detail = ""
            if st != "discharged":
                # the unary facts of the parents are too weak: compose the strongest postconditions of
                # all scalar-rule ancestors down to inputs / aggregates (relations between columns kept)
                try:
                    import networkx as nx

                    stop = {n for n in dag.nodes if n not in T}
                    f = df.closed_form(t, stop=stop)
                    anc = nx.ancestors(dag, t)
                    hs = [c for n in anc if n in stop for c in df.facts.get(n, [])]
                    hs += vin.relational_clauses({n: V(n) for n in anc if df.kind.get(n) == "input" and df.types.get(n)})
                    # definedness of the composed term: every divisor obligation of the ancestors holds
                    r2 = solve.check([*hs, f < 0], 120)
                    st = {"unsat": "discharged", "sat": "refuted"}.get(r2.status, "unknown")
                    detail = "closed form over all scalar-rule ancestors"
                    r = r2
                    if st == "refuted":
                        kw = {"cols": _cols(r2.model, df, [f, *hs]), "targets": [t], "kind": "nonneg"}
                except (KeyError, symx.Unsupported) as ex:
                    detail = f"closed form failed: {ex!r}"
                    if st == "refuted":
                        kw = {"cols": {a: _val(r.model, tm) for a, (tm, _) in df.summaries[t].args.items()}, "targets": [t], "kind": "nonneg"}
            put(f"N {t} >= 0", st, r.backend, r.seconds, detail, **kw)
        else:
            put(f"N {t} >= 0", "unsupported", detail=f"node kind {df.kind.get(t)} without summary")
    # ---- C
    def cap(name, target, hyps, bound, slack=0, nodes=None):
        if target not in T:
            put(f"C {name}", "unsupported", detail=f"{target} has no summary")
            return
        q = [*hyps, T[target] > bound + slack] if not isinstance(target, tuple) else None
        r = solve.check(q, 60)
        st = {"unsat": "discharged", "sat": "refuted"}.get(r.status, "unknown")
        kw = {}
        if st == "refuted":
            kw = {"cols": {a: _val(r.model, tm) for a, (tm, _) in df.summaries[target].args.items()}, "targets": [target], "kind": "cap", "bound": _val(r.model, bound + slack) if z3.is_expr(bound) else float(bound)}
        put(f"C {name}", st, r.backend, r.seconds, "", **kw)

    def pre_args(n):
        return df.pre_of(list(df.summaries[n].args)) if n in df.summaries else []

    for tgt, capnode, label in (("arbeitsl_geld_2_m_bg", "arbeitsl_geld_2_vor_vorrang_m_bg", "ALG II after the priority checks <= entitlement before them"),
                                ("wohngeld_m_wthh", "wohngeld_anspruchshöhe_m_wthh", "Wohngeld paid <= Wohngeld entitlement"),
                                ("kinderzuschl_m_bg", "_kinderzuschl_nach_vermög_check_m_bg", "Kinderzuschlag paid <= amount after the wealth check"),
                                ("unterhaltsvors_m", "_unterhaltsvors_anspruch_kind_m", "Unterhaltsvorschuss paid <= entitlement before the alimony received is credited (+ rounding step)")):
        if tgt in T and capnode in dag:
            # a target that is rounded itself may exceed the unrounded entitlement by less than one grid step
            slack = 0
            for grp in e.params.values():
                sp_ = grp.get("rounding", {}).get(tgt) if isinstance(grp, dict) and isinstance(grp.get("rounding"), dict) else None
                if isinstance(sp_, dict) and "base" in sp_ and "params_key_for_rounding" in (getattr(df.fno.get(tgt), "__info__", None) or {}):
                    slack = symx.frac_to_z3real(Fraction(repr(float(sp_["base"]))) + abs(Fraction(repr(float(sp_.get("to_add_after_rounding", 0))))))
            cap(label, tgt, [*pre_args(tgt), V(capnode) >= 0], V(capnode), slack=slack)
    # Elterngeld
    if "elterngeld_m" in T and "elterngeld_anspruchshöhe_m" in T:
        p = e.params["elterngeld"]
        try:
            stop = {"elterngeld_basisbetrag_m", "elterngeld_geschwisterbonus_m", "elterngeld_mehrlingsbonus_m", "elterngeld_anspruchsbedingungen_erfüllt"}
            f = df.closed_form("elterngeld_m", stop=stop)
            hb = symx.frac_to_z3real(Fraction(repr(float(p["höchstbetrag"]))))
            base = Fraction(repr(float(p.get("rounding", {}).get("elterngeld_m", {}).get("base", 0))))
            b1, b2 = V("elterngeld_geschwisterbonus_m"), V("elterngeld_mehrlingsbonus_m")
            hs = [b1 >= 0, b2 >= 0]
            r = solve.check([*hs, f > hb + b1 + b2 + symx.frac_to_z3real(base)], 60)
            st = {"unsat": "discharged", "sat": "refuted"}.get(r.status, "unknown")
            kw = {}
            if st == "refuted":
                kw = {"cols": _cols(r.model, df, f), "targets": ["elterngeld_m"], "kind": "cap", "bound": _val(r.model, hb + b1 + b2 + symx.frac_to_z3real(base))}
            put("C Elterngeld <= höchstbetrag + sibling bonus + multiples bonus (+ rounding step)", st, r.backend, r.seconds, "", **kw)
        except (KeyError, symx.Unsupported) as ex:
            put("C Elterngeld cap", "unsupported", detail=repr(ex))
    # contributions <= value at the ceiling
    w = comp["w"]
    w2 = z3.Real("bruttolohn_m#cap")
    for b, f in comp["forms"].items():
        if b not in comp["ceil"]:
            continue
        fc = z3.substitute(f, (w, w2))
        r = solve.check([*comp["base"], w >= 0, w2 == comp["ceil"][b], f > fc], 60)
        st = {"unsat": "discharged", "sat": "refuted"}.get(r.status, "unknown")
        kw = {}
        if st == "refuted":
            cdf = comp["df"]
            kw = {"cols": {n: _val(r.model, cdf.var(n)) for n in cdf.dag.nodes if (cdf.kind.get(n) == "input" or (n in comp["stop"] and cdf.kind.get(n) != "params")) and cdf.types.get(n)}, "targets": [f"{b}_beitr_arbeitnehmer_m"], "kind": "cap-ceiling", "ceiling": _val(r.model, w2)}
        put(f"C {b} employee contribution never exceeds its value at the assessment ceiling (rate x ceiling)", st, r.backend, r.seconds, "", **kw)
    # pensioner contributions <= value at the assessment ceiling of the pension sum
    pvar = comp.get("pension_var")
    if pvar is not None and "ges_krankenv" in comp["ceil"]:
        p2 = z3.Real("sum_ges_rente_priv_rente_m#cap")
        for pn, g_ in sorted(comp.get("pens", {}).items()):
            gc = z3.substitute(g_, (pvar, p2))
            r = solve.check([*comp["base"], pvar >= 0, p2 == comp["ceil"]["ges_krankenv"], g_ > gc], 60)
            st = {"unsat": "discharged", "sat": "refuted"}.get(r.status, "unknown")
            kw = {}
            if st == "refuted":
                cdf = comp["df"]
                cols = {n: _val(r.model, cdf.var(n)) for n in cdf.dag.nodes if (cdf.kind.get(n) == "input" or (n in comp["stop"] and cdf.kind.get(n) != "params")) and cdf.types.get(n)}
                cols["sum_ges_rente_priv_rente_m"] = _val(r.model, pvar)
                kw = {"cols": cols, "targets": [pn], "kind": "cap-ceiling", "ceiling": _val(r.model, p2), "ceiling_col": "sum_ges_rente_priv_rente_m"}
            put(f"C {pn} never exceeds its value at the assessment ceiling of the pension sum (rate x ceiling)", st, r.backend, r.seconds, "", **kw)
    # caps a parameter encodes directly for one column
    from contracts import nodes as cnodes

    for node, grp, path in cnodes.PARAM_CAPS:
        if node not in df.summaries:
            continue
        v = e.params.get(grp, {})
        try:
            for k in path:
                v = v[k]
        except (KeyError, TypeError):
            continue
        if isinstance(v, bool) or not isinstance(v, (int, float)):
            continue
        sm = df.summaries[node]
        pre = df.pre_of(list(sm.args))
        try:
            res = symx.real_term(sm.result, pre)
        except (symx.Unsupported, symx.InfiniteValue) as ex:
            put(f"C {node} <= {grp}.{'.'.join(map(str, path))}", "unsupported", detail=repr(ex)[:200])
            continue
        r = solve.check([*pre, res > symx.frac_to_z3real(Fraction(repr(float(v))))], 30)
        st = {"unsat": "discharged", "sat": "refuted"}.get(r.status, "unknown")
        kw = {}
        if st == "refuted":
            kw = {"cols": rules.model_inputs(r.model, sm), "targets": [node], "kind": "cap", "bound": float(v)}
        put(f"C {node} never exceeds the cap {grp}.{'.'.join(map(str, path))}", st, r.backend, r.seconds, "", **kw)
    # solidarity surcharge <= nominal rate x tax (+ 1 cent): the schedule lemma of C18, on the real _soli_st_tarif
    sp = e.params.get("soli_st", {}).get("soli_st")
    if isinstance(sp, dict) and {"thresholds", "rates", "intercepts_at_lower_thresholds"} <= set(sp):
        try:
            from props import C18 as c18
            from specs import piecewise_spec as pws

            spec = pws.from_arrays(sp["thresholds"], sp["rates"], sp["intercepts_at_lower_thresholds"])
            for o in c18._z3_soli(e, spec):
                if "nominal rate" not in o["name"]:
                    continue
                kw = {}
                if o["status"] == "refuted" and "x" in o:
                    kw = {"cols": {"st_per_individual": o["x"]}, "targets": ["_soli_st_tarif"], "kind": "soli-cap", "bound": float(spec["rates"][0][-1]) * o["x"] + 0.01}
                put("C solidarity surcharge never exceeds its nominal rate times the tax by more than one cent", o["status"], o["backend"], o["seconds"], o.get("detail", ""), **kw)
        except Exception as ex:  # noqa: BLE001
            put("C solidarity surcharge cap", "unsupported", detail=repr(ex)[:200])
    # Grundrente supplement
    g = "grundr_zuschlag_vor_eink_anr_m"
    if g in T and "ges_rente" in e.params and "grundr_zugangsfaktor_max" in e.params["ges_rente"]:
        gp = e.params["ges_rente"]
        s = df.summaries[g]
        a = {k: tm for k, (tm, _) in s.args.items()}
        zmax = symx.frac_to_z3real(Fraction(repr(float(gp["grundr_zugangsfaktor_max"]))))
        mmax = symx.frac_to_z3real(Fraction(gp["grundr_zeiten"]["max"]))
        need = ["grundr_zuschlag_bonus_entgeltp", "grundr_bew_zeiten", "rentenwert", "ges_rente_zugangsfaktor"]
        if all(k in a for k in need):
            bon, bew, rw, zf = ((df.consts[k] if k in df.consts else a[k]) for k in need)
            bewr = z3.ToReal(bew) if z3.is_int(bew) else bew
            hs = [bon >= 0, bewr >= 0, rw > 0, zf >= 0]
            # monotone in each capped factor: value with the caps applied to the factors directly
            cap_val = bon * z3.If(bewr <= mmax, bewr, mmax) * rw * z3.If(zf <= zmax, zf, zmax)
            res_term = T[g]
            base = Fraction(repr(float(gp.get("rounding", {}).get(g, {}).get("base", 0))))
            r = solve.check([*hs, res_term > cap_val + symx.frac_to_z3real(base)], 60)
            st = {"unsat": "discharged", "sat": "refuted"}.get(r.status, "unknown")
            kw = {}
            if st == "refuted":
                kw = {"cols": {k: _val(r.model, tm) for k, tm in a.items()}, "targets": [g], "kind": "cap", "bound": _val(r.model, cap_val)}
            put("C Grundrente supplement <= bonus points x min(months, max) x pension value x min(Zugangsfaktor, max)", st, r.backend, r.seconds, "", **kw)
    return items


def _worker(dates):
    out = {}
    seen = set()
    for d in dates:
        out.update(_check_date(venv.Env(d)))
    return out


def api_replay(it):
    e = venv.Env(datetime.date.fromisoformat(it["date"]))
    if it.get("kind") == "soli-cap":
        from _gettsim.taxes.soli_st import _soli_st_tarif

        val = float(_soli_st_tarif(it["cols"]["st_per_individual"], e.params["soli_st"]))
        return bool(val > it["bound"] + 1e-9), {"value": val, "bound": it["bound"]}
    df = popgen.to_frame([popgen.person(0, 0)])
    for k, v in it["cols"].items():
        if k.endswith("_id") or isinstance(v, str):
            continue
        df[k] = [v]
    targets = list(it["targets"])
    roots = popgen.required_roots(e, targets, list(df.columns))
    for r in roots:
        if r not in df.columns:
            df[r] = 0
    res = popgen.simulate(e, df, targets=targets)
    val = float(res[targets[0]].iloc[0])
    import math

    if it["kind"] == "nonneg":
        bad = val < -1e-9
    elif it["kind"] == "finite":
        bad = not math.isfinite(val)
    elif it["kind"] == "cap":
        bad = val > it["bound"] + 1e-9
    elif it["kind"] == "cap-ceiling":
        df2 = df.copy()
        df2[it.get("ceiling_col", "bruttolohn_m")] = [it["ceiling"]]
        val2 = float(popgen.simulate(e, df2, targets=targets)[targets[0]].iloc[0])
        bad = val > val2 + 1e-9
        return bool(bad), {"value": val, "value_at_ceiling": val2}
    else:
        bad = False
    return bool(bad), {"value": val, "bound": it.get("bound")}


def replay(path):
    rp = json.loads(open(path).read())
    if "item" in rp and "cols" in rp["item"]:
        bad, vals = api_replay(rp["item"])
        print(json.dumps({"violates": bad, **vals}))
        return 1 if bad else 0
    print(json.dumps(rp, indent=1))
    return 0


def run(tier="quick", seed=0, jobs=16):
    rep = Report("C16", tier, seed, "proof")
    rep.assumptions = [ASSUMPTIONS["A1"], ASSUMPTIONS["A2"], ASSUMPTIONS["A4"], vin.describe(), "rounding=True",
                       "facts on aggregation / grouping / time-conversion nodes come from the kernel contracts of C11-C13 (sum / max / min / mean of non-negatives is non-negative, count >= 1, ...)",
                       "assumed contracts for the two datetime rules (geburtsdatum, alter_monate >= 0)",
                       "the list of caps is the one named in the property statement plus the Grundrente factor caps; it is not derived mechanically from the parameter names"]
    rep.trusted = ["z3 5.1.0 (QF_NRA for the Grundrente cap) / cvc5 1.4.0", "E1 encoder", "dags graph construction"]
    classes = [c[0] for c in venv.date_classes(since=rules.D2015, until=venv.last_parameter_date())]
    items = {}
    for st, job, res in par.pmap(_worker, par.chunks(classes, jobs), jobs):
        if st != "ok":
            raise RuntimeError(res)
        items.update(res)
    nF = 0
    by_name = {}
    for k, it in sorted(items.items()):
        if it["name"].startswith("F all"):
            nF += it.get("n", 0)
            continue
        if it["status"] == "discharged":
            rep.ob(k, "discharged", it["backend"], it["seconds"], "", "fact", it.get("detail", ""))
        else:
            by_name.setdefault(it["name"], []).append(it)
    n_listed_F = 0
    for name, its in sorted(by_name.items()):
        it = its[0]
        rep.ob(f"{name}@{it['date']} (+{len(its) - 1} classes)", it["status"], it["backend"], it["seconds"], "", it.get("kind", ""), it.get("detail", ""))
        if name.startswith("F "):
            n_listed_F += len(its)
        if it["status"] == "refuted":
            bad, vals = False, {}
            if "cols" in it:
                for cand in its[:3]:
                    try:
                        bad, vals = api_replay(cand)
                    except Exception as ex:  # noqa: BLE001
                        bad, vals = False, {"error": repr(ex)[:200]}
                    if bad:
                        it = cand
                        break
            rep.violation(name, f"{name} fails at {it['date']} ({len(its)} classes): columns {it.get('cols')} -> API {vals}", {"item": it, "obligation": name, "dates": [x["date"] for x in its]}, failing_input_found=bad)
    rep.add_counts(max(0, nF - n_listed_F), "z3", 0.0, "F divisor / infinity obligations")
    rep.functions.add("every scalar rule of the default-target DAG of every date class >= 2015 (summaries), see C08 for the list")
    rep.samples = rep.obligations[:5]
    return rep.finish({"date_classes": len(classes)})
