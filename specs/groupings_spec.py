"""Order-free executable specifications of the derived units (C12), written from the property
statement and docs/gettsim_developer/hh_concepts.md / GEP-1 -- independent of groupings.py.
Used (a) as the oracle of the bounded-exhaustive route for fg_id_numpy (the property's own bound:
all structures and row orders up to five persons), (b) to turn a lost kernel proof into a concrete
failing input, (c) as vacuity witnesses (valid inputs exist and are executed on the real kernel).
"""
from __future__ import annotations

import itertools

import numpy


def partition_of(ids):
    """frozenset of frozensets of row indices"""
    groups = {}
    for r, v in enumerate(ids):
        groups.setdefault(int(v), set()).add(r)
    return frozenset(frozenset(g) for g in groups.values())


def closure(n, pairs):
    parent = list(range(n))

    def find(a):
        while parent[a] != a:
            parent[a] = parent[parent[a]]
            a = parent[a]
        return a

    for a, b in pairs:
        ra, rb = find(a), find(b)
        if ra != rb:
            parent[ra] = rb
    groups = {}
    for r in range(n):
        groups.setdefault(find(r), set()).add(r)
    return frozenset(frozenset(g) for g in groups.values())


def row_of(p_id):
    return {int(v): r for r, v in enumerate(p_id)}


# -- expected partitions ------------------------------------------------------------------
def expected_couple(p_id, ptr):
    ro = row_of(p_id)
    return closure(len(p_id), [(r, ro[int(q)]) for r, q in enumerate(ptr) if q >= 0])


def expected_sn(p_id, ptr, gv):
    ro = row_of(p_id)
    return closure(len(p_id), [(r, ro[int(q)]) for r, q in enumerate(ptr) if q >= 0 and gv[r] and gv[ro[int(q)]]])


def expected_fg(p_id, hh_id, alter, partner, e1, e2):
    """partners, and the co-resident childless children under 25 of either partner"""
    n = len(p_id)
    ro = row_of(p_id)
    has_children = set()
    for r in range(n):
        for q in (e1[r], e2[r]):
            if q >= 0:
                has_children.add(ro[int(q)])
    pairs = []
    for r in range(n):
        if partner[r] >= 0:
            pairs.append((r, ro[int(partner[r])]))
        if alter[r] < 25 and r not in has_children:
            for q in (e1[r], e2[r]):
                if q >= 0 and hh_id[ro[int(q)]] == hh_id[r]:
                    pairs.append((r, ro[int(q)]))
    return closure(n, pairs)


def expected_bg(fg_id, alter, eig):
    n = len(fg_id)
    groups = {}
    out = []
    for r in range(n):
        if alter[r] < 25 and eig[r]:
            out.append(frozenset([r]))
        else:
            groups.setdefault(int(fg_id[r]), set()).add(r)
    return frozenset(out) | frozenset(frozenset(g) for g in groups.values())


def expected_wthh(hh_id, f1, f2):
    groups = {}
    for r in range(len(hh_id)):
        groups.setdefault((int(hh_id[r]), bool(f1[r] or f2[r])), set()).add(r)
    return frozenset(frozenset(g) for g in groups.values())


# -- enumeration of valid pointer structures ----------------------------------------------
def matchings(rows):
    """all partial symmetric matchings of a list of rows"""
    rows = list(rows)
    if not rows:
        yield {}
        return
    a, rest = rows[0], rows[1:]
    for m in matchings(rest):
        yield m
    for idx, b in enumerate(rest):
        for m in matchings(rest[:idx] + rest[idx + 1 :]):
            mm = dict(m)
            mm[a] = b
            mm[b] = a
            yield mm


def couple_inputs(n, id_sets=None):
    """(p_id, ptr) for all partial matchings of n persons, with non-contiguous unsorted ids"""
    ids = [7, 3, 12, 0, 5][:n]
    for m in matchings(range(n)):
        ptr = [ids[m[r]] if r in m else -1 for r in range(n)]
        yield numpy.array(ids), numpy.array(ptr)


ID_LABELLINGS = ([11, 4, 29, 0, 17], [0, 7, 3, 12, 5])


def family_structures(n, max_hh=2, ids=None):
    """Typed roles up to isomorphism: each person is an adult (40), a young adult (22) or a child
    (8); symmetric partner matchings among adults / young adults; parent pointers only to strictly
    older roles; <= max_hh households. Yields dicts of arrays (rows in generated order)."""
    ages = {"A": 40, "Y": 22, "C": 8}
    rank = {"A": 2, "Y": 1, "C": 0}
    ids = (ids or ID_LABELLINGS[0])[:n]
    for roles in itertools.combinations_with_replacement("AYC", n):
        grown = [r for r in range(n) if roles[r] in "AY"]
        for m in matchings(grown):
            # partners are of the same generation rank or adjacent; keep all
            parent_opts = []
            for r in range(n):
                older = [q for q in range(n) if rank[roles[q]] > rank[roles[r]]]
                opts = [(-1, -1)] + [(q, -1) for q in older] + [(-1, q) for q in older] + [(q, s) for q in older for s in older if q != s]
                parent_opts.append(opts)
            for parents in itertools.product(*parent_opts):
                for hh in itertools.product(range(max_hh), repeat=n):
                    if hh[0] != 0 or any(h > max(hh[:i] or [0]) + 1 for i, h in enumerate(hh) if i > 0):
                        continue  # canonical household labelling
                    if any(hh[r] != hh[m[r]] for r in m):
                        continue  # Einstandspartner share a household (VALID)
                    if not _unambiguous(n, roles, m, parents, hh, ages):
                        continue
                    yield {
                        "p_id": numpy.array(ids),
                        "hh_id": numpy.array([h * 3 + 1 for h in hh]),
                        "alter": numpy.array([ages[x] for x in roles]),
                        "p_id_einstandspartner": numpy.array([ids[m[r]] if r in m else -1 for r in range(n)]),
                        "p_id_elternteil_1": numpy.array([ids[p[0]] if p[0] >= 0 else -1 for p in parents]),
                        "p_id_elternteil_2": numpy.array([ids[p[1]] if p[1] >= 0 else -1 for p in parents]),
                    }


def _unambiguous(n, roles, m, parents, hh, ages):
    """Structures for which the unit definition of the property statement is unambiguous:
    V1 two parents living in the child's household are partners of each other;
    V2 a person under 25 who lives with a parent has no partner (a partnered young adult in the
       parental household is neither clearly a child of that unit nor clearly a unit of its own);
    V3 nobody is the partner of an own parent."""
    for r in range(n):
        ps = [q for q in parents[r] if q >= 0]
        res = [q for q in ps if hh[q] == hh[r]]
        if len(res) == 2 and m.get(res[0]) != res[1]:
            return False
        if ages[roles[r]] < 25 and res and r in m:
            return False
        if r in m and m[r] in ps:
            return False
    return True


def random_structure(n, rng, max_hh=3):
    """one random unambiguous structure with n persons (for the 'randomly beyond five' part)"""
    ages = {"A": 40, "Y": 22, "C": 8}
    rank = {"A": 2, "Y": 1, "C": 0}
    ids = rng.sample(range(0, 4 * n), n)
    for _ in range(200):
        roles = tuple(sorted((rng.choice("AAYCC") for _ in range(n)), key=lambda r: -rank[r]))
        grown = [r for r in range(n) if roles[r] in "AY"]
        rng.shuffle(grown)
        m = {}
        for a, b in zip(grown[0::2], grown[1::2]):
            if rng.random() < 0.6:
                m[a], m[b] = b, a
        hh = [rng.randrange(max_hh) for _ in range(n)]
        for a, b in m.items():
            hh[b] = hh[a]
        parents = []
        for r in range(n):
            older = [q for q in range(n) if rank[roles[q]] > rank[roles[r]]]
            if not older or rng.random() < 0.35:
                parents.append((-1, -1))
                continue
            q = rng.choice(older)
            if q in m and rng.random() < 0.6 and rank[roles[m[q]]] > rank[roles[r]]:
                pair = (q, m[q])
            else:
                pair = (q, -1)
            parents.append(pair if rng.random() < 0.5 else (pair[1], pair[0]))
        if _unambiguous(n, roles, m, parents, hh, ages):
            return {
                "p_id": numpy.array(ids),
                "hh_id": numpy.array([h * 3 + 1 for h in hh]),
                "alter": numpy.array([ages[x] for x in roles]),
                "p_id_einstandspartner": numpy.array([ids[m[r]] if r in m else -1 for r in range(n)]),
                "p_id_elternteil_1": numpy.array([ids[p[0]] if p[0] >= 0 else -1 for p in parents]),
                "p_id_elternteil_2": numpy.array([ids[p[1]] if p[1] >= 0 else -1 for p in parents]),
            }
    return None


def permute(data, perm):
    return {k: v[list(perm)] for k, v in data.items()}


def perm_partition(part, perm):
    """partition of permuted rows expressed in original row numbers"""
    return frozenset(frozenset(perm[r] for r in g) for g in part)
