"""Population family for replays and bounded stand-ins (DESIGN.md 7.0).

base_population(kind, ...) builds small valid households as dicts of columns covering every
documented input variable; required_roots() asks the real loader/DAG which inputs a target set
needs. Everything is seeded; nothing here is counted as proof.
"""
from __future__ import annotations

import random
import warnings

import numpy
import pandas as pd


def input_types():
    from _gettsim.config import TYPES_INPUT_VARIABLES

    return dict(TYPES_INPUT_VARIABLES)


DEFAULTS = {
    "alter": 40,
    "geburtsjahr": 1983,
    "geburtsmonat": 3,
    "geburtstag": 12,
    "mietstufe": 3,
    "steuerklasse": 1,
    "jahr_renteneintr": 2050,
    "monat_renteneintr": 4,
    "immobilie_baujahr_hh": 1975,
    "wohnfläche_hh": 70.0,
    "bruttokaltmiete_m_hh": 650.0,
    "heizkosten_m_hh": 90.0,
    "arbeitsstunden_w": 38.0,
    "bruttolohn_m": 2600.0,
    "bruttolohn_vorj_m": 2500.0,
    "elterngeld_nettoeinkommen_vorjahr_m": 1700.0,
    "elterngeld_zu_verst_eink_vorjahr_y_sn": 30000.0,
    "sozialv_pflicht_5j": 60.0,
    "anwartschaftszeit": True,
    "höchster_bruttolohn_letzte_15_jahre_vor_rente_y": 40000.0,
}

POINTERS = [
    "p_id_elternteil_1",
    "p_id_elternteil_2",
    "p_id_kindergeld_empf",
    "p_id_erziehgeld_empf",
    "p_id_ehepartner",
    "p_id_einstandspartner",
    "p_id_betreuungsk_träger",
]


def person(p_id, hh_id, **kw):
    t = input_types()
    row = {}
    for name, ty in t.items():
        if name in DEFAULTS:
            row[name] = DEFAULTS[name]
        elif name in POINTERS:
            row[name] = -1
        elif ty is bool:
            row[name] = False
        elif ty is int:
            row[name] = 0
        else:
            row[name] = 0.0
    row["p_id"] = p_id
    row["hh_id"] = hh_id
    row.update(kw)
    if "alter" in kw and "geburtsjahr" not in kw:
        row["geburtsjahr"] = 2023 - kw["alter"]
    return row


def household(kind, hh_id=0, first_pid=0, year=2023, rng=None):
    """list of person rows. kinds: single, couple, married, single_parent, family, patchwork,
    three_gen, adult_child, pensioners, working_children"""
    rng = rng or random.Random(0)
    p = first_pid
    rows = []

    def add(**kw):
        nonlocal p
        if "alter" in kw:
            kw.setdefault("geburtsjahr", year - kw["alter"])
        rows.append(person(p, hh_id, **kw))
        p += 1
        return p - 1

    if kind == "single":
        add(alter=35, bruttolohn_m=rng.choice([0.0, 450.0, 520.0, 1500.0, 3000.0, 7000.0]))
    elif kind in ("couple", "married"):
        a = add(alter=42, bruttolohn_m=3100.0)
        b = add(alter=39, bruttolohn_m=rng.choice([0.0, 400.0, 1800.0]), weiblich=True)
        for i, j in ((0, b), (1, a)):
            rows[i]["p_id_einstandspartner"] = j
            if kind == "married":
                rows[i]["p_id_ehepartner"] = j
                rows[i]["gemeinsam_veranlagt"] = True
                rows[i]["steuerklasse"] = 4
    elif kind == "single_parent":
        a = add(alter=33, bruttolohn_m=1400.0, alleinerz=True, weiblich=True, steuerklasse=2)
        add(alter=6, kind=True, bruttolohn_m=0.0, p_id_elternteil_1=a, p_id_kindergeld_empf=a, arbeitsstunden_w=0.0, kind_unterh_anspr_m=300.0)
    elif kind == "single_father":
        # the only parent is recorded in the second parent column
        a = add(alter=36, bruttolohn_m=1700.0, alleinerz=True, steuerklasse=2)
        add(alter=5, kind=True, bruttolohn_m=0.0, p_id_elternteil_2=a, p_id_kindergeld_empf=a, arbeitsstunden_w=0.0, kind_unterh_anspr_m=250.0)
    elif kind == "family":
        a = add(alter=41, bruttolohn_m=2900.0)
        b = add(alter=40, bruttolohn_m=900.0, weiblich=True)
        for i, j in ((0, b), (1, a)):
            rows[i].update(p_id_einstandspartner=j, p_id_ehepartner=j, gemeinsam_veranlagt=True, steuerklasse=4)
        for age in (12, 4):
            add(alter=age, kind=True, bruttolohn_m=0.0, p_id_elternteil_1=a, p_id_elternteil_2=b, p_id_kindergeld_empf=a, arbeitsstunden_w=0.0)
    elif kind == "patchwork":
        a = add(alter=45, bruttolohn_m=2500.0)
        b = add(alter=38, bruttolohn_m=1200.0, weiblich=True)
        for i, j in ((0, b), (1, a)):
            rows[i].update(p_id_einstandspartner=j)
        add(alter=10, kind=True, bruttolohn_m=0.0, p_id_elternteil_1=b, p_id_kindergeld_empf=b, arbeitsstunden_w=0.0)
        add(alter=15, kind=True, bruttolohn_m=0.0, p_id_elternteil_1=a, p_id_kindergeld_empf=a, arbeitsstunden_w=0.0)
    elif kind == "three_gen":
        g = add(alter=70, rentner=True, bruttolohn_m=0.0, arbeitsstunden_w=0.0, jahr_renteneintr=year - 5, priv_rente_m=200.0, entgeltp_west=35.0)
        a = add(alter=44, bruttolohn_m=2800.0, p_id_elternteil_1=g)
        add(alter=9, kind=True, bruttolohn_m=0.0, p_id_elternteil_1=a, p_id_kindergeld_empf=a, arbeitsstunden_w=0.0)
        rows[1]["alleinerz"] = True
    elif kind == "adult_child":
        a = add(alter=52, bruttolohn_m=3000.0)
        add(alter=21, bruttolohn_m=900.0, p_id_elternteil_1=a, p_id_kindergeld_empf=a, in_ausbildung=True, eigenbedarf_gedeckt=rng.random() < 0.5)
    elif kind == "working_children":
        # two children under 25 who cover their own needs: each is a Bedarfsgemeinschaft of its own
        a = add(alter=47, bruttolohn_m=2100.0, alleinerz=True, steuerklasse=2, weiblich=True)
        for age, wage in ((20, 1500.0), (22, 1750.0)):
            add(alter=age, bruttolohn_m=wage, p_id_elternteil_1=a, eigenbedarf_gedeckt=True)
    elif kind == "pensioners":
        a = add(alter=72, rentner=True, bruttolohn_m=0.0, arbeitsstunden_w=0.0, jahr_renteneintr=year - 7, entgeltp_west=28.0)
        b = add(alter=69, rentner=True, bruttolohn_m=0.0, arbeitsstunden_w=0.0, jahr_renteneintr=year - 4, entgeltp_west=12.0, weiblich=True)
        for i, j in ((0, b), (1, a)):
            rows[i].update(p_id_einstandspartner=j, p_id_ehepartner=j, gemeinsam_veranlagt=True)
    else:
        raise ValueError(kind)
    return rows


KINDS = ["single", "couple", "married", "single_parent", "single_father", "family", "patchwork", "three_gen", "adult_child", "pensioners", "working_children"]


def to_frame(rows):
    t = input_types()
    df = pd.DataFrame(rows)
    for c in df.columns:
        ty = t.get(c)
        if ty is bool:
            df[c] = df[c].astype(bool)
        elif ty is int:
            df[c] = df[c].astype(numpy.int64)
        elif ty is float:
            df[c] = df[c].astype(float)
    return df


def population(kinds, year=2023, seed=0):
    rng = random.Random(seed)
    rows = []
    pid = 0
    for h, k in enumerate(kinds):
        hr = household(k, hh_id=h, first_pid=pid, year=year, rng=rng)
        pid += len(hr)
        rows.extend(hr)
    return to_frame(rows)


def simulate(env, data, targets=None, **kw):
    from _gettsim.interface import compute_taxes_and_transfers

    with warnings.catch_warnings():
        warnings.simplefilter("ignore")
        return compute_taxes_and_transfers(data=data, params=env.params, functions=env.functions, targets=targets, **kw)


def required_roots(env, targets, data_cols):
    """root nodes of the real DAG for `targets` when `data_cols` are available as data"""
    dag = env.dag(targets=targets, data_cols=data_cols)
    return {n for n in dag.nodes if not list(dag.predecessors(n)) and not n.endswith("_params")}
