"""Assume-guarantee pass over the *real* DAG of a date class (used by C08, C16, C17, C19, C15).

Every node gets a z3 constant named after the column (sort from the producer's declared type).
Facts about a node are z3 constraints over that constant:
  * inputs            : VALID (contracts/inputs.py)
  * scalar rule       : candidates (>= 0, plus those in contracts/nodes.py) are KEPT only when
                        z3 proves  facts(parents) => candidate[result := strongest postcondition]
  * aggregation nodes : from the kernel contracts (C11): sum / max / min / mean of non-negatives
                        is non-negative, count >= 1, sum of bool <= count ...
  * time conversion   : sign preserved (positive factor, C13)
  * groupings         : ids >= 0 (C12)
  * array rules       : join contract (value of some row of the target column, or the default)
The DAG is acyclic, nodes are visited in topological order, so one pass is a fix-point.
"""
from __future__ import annotations

import ast
import inspect
import textwrap

import networkx as nx
import z3

from contracts import inputs as vin
from vt import env as venv
from vt import rules, solve, symx

TYNAME = {float: "float", int: "int", bool: "bool", "float": "float", "int": "int", "bool": "bool"}


def mkvar(name, ty, suffix=""):
    n = name + suffix
    if ty == "bool":
        return z3.Bool(n)
    if ty == "int":
        return z3.Int(n)
    return z3.Real(n)


def agg_kind(func):
    """('sum'|'count'|..., by 'group'|'p_id') read from the inner function's real source"""
    f0 = inspect.unwrap(func)
    src = textwrap.dedent(inspect.getsource(f0))
    tree = ast.parse(src)
    for n in ast.walk(tree):
        if isinstance(n, ast.Call) and isinstance(n.func, ast.Name):
            nm = n.func.id
            if nm.startswith("grouped_"):
                return nm[len("grouped_") :], "group"
            if nm.endswith("_by_p_id"):
                return nm[: -len("_by_p_id")], "p_id"
    return None, None


def elem_type_of_annotation(ann):
    """numpy.ndarray[bool] -> 'bool' ; float -> 'float'"""
    if ann in TYNAME:
        return TYNAME[ann]
    s = str(ann)
    for k in ("bool", "int", "float"):
        if f"[{k}]" in s or s.endswith(f"[{k}]"):
            return k
    try:
        from typing import get_args

        a = get_args(ann)
        if a and a[0] in TYNAME:
            return TYNAME[a[0]]
    except Exception:  # noqa: BLE001
        pass
    return None


# Rules outside the E1 subset (datetime arithmetic): hand-written, ASSUMED contracts, listed in
# every evidence file that uses them.
OPAQUE = {
    "geburtsdatum": {"type": None, "facts": []},
    "alter_monate": {"type": "float", "facts": [("alter_monate >= 0 (birth date not after the policy date)", lambda v: v >= 0)]},
}


class DagFacts:
    def __init__(self, env, targets=None, extra_candidates=None, timeout_s=10, suffix=""):
        self.env = env
        self.suffix = suffix
        self.timeout_s = timeout_s
        self.fno, self.fo = env.universe(targets)
        self.dag = env.dag(targets)
        self.types = {}
        self.kind = {}
        self.facts = {}  # node -> list of z3 constraints
        self.summaries = {}
        self.unsupported = {}
        self.proved = []  # (node, candidate text)
        self.rejected = []
        self.solver_seconds = 0.0
        self.n_queries = 0
        from contracts import nodes as cnodes

        self.extra_candidates = {**cnodes.EXTRA_CANDIDATES, **(extra_candidates or {})}
        self.result_terms = {}
        self.consts = {}
        self.rounding_missing = []
        self.input_types = {k: TYNAME[v] for k, v in vin.input_types().items()}
        self.assumed_contracts = []
        self.rounding = True
        self._assign_types()

    # ------------------------------------------------------------------
    def _assign_types(self):
        for n in self.dag.nodes:
            if n.endswith("_params"):
                self.kind[n] = "params"
                continue
            if n in self.fno:
                f = self.fno[n]
                k = venv.classify_node(n, f)
                self.kind[n] = k
                ann = None
                try:
                    ann = f.__annotations__.get("return")
                except AttributeError:
                    pass
                if ann is None:
                    ann = getattr(inspect.unwrap(f), "__annotations__", {}).get("return")
                if isinstance(ann, str):
                    ann = {"float": float, "int": int, "bool": bool}.get(ann, ann)
                ty = elem_type_of_annotation(ann)
                if k == "grouping":
                    ty = "int"
                if k == "time_conversion":
                    ty = "float"
                if ty is None and n in OPAQUE:
                    ty = OPAQUE[n]["type"]
                self.types[n] = ty
            elif n in self.input_types:
                self.kind[n] = "input"
                self.types[n] = self.input_types[n]
            else:
                self.kind[n] = "missing_root"
                self.types[n] = None

    def _fix_aggregate_types(self):
        """aggregates of derived columns carry no annotation: type from the kernel contract"""
        for n in nx.topological_sort(self.dag):
            if self.kind.get(n) in ("aggregate_by_group", "aggregate_by_p_id") and self.types.get(n) is None:
                kind, _ = agg_kind(self.fno[n])
                params = list(inspect.signature(self.fno[n]).parameters)
                st = self.types.get(params[0]) if params else None
                if kind == "count":
                    self.types[n] = "int"
                elif kind in ("any", "all"):
                    self.types[n] = "bool"
                elif kind == "sum" and st == "bool":
                    self.types[n] = "int"
                else:
                    self.types[n] = st

    def var(self, n):
        return mkvar(n, self.types[n], self.suffix)

    def pre_of(self, args):
        cl = []
        for a in args:
            cl.extend(self.facts.get(a, []))
        inputs = {a: self.var(a) for a in args if self.kind.get(a) == "input"}
        cl.extend(vin.relational_clauses(inputs))
        return cl

    # ------------------------------------------------------------------
    def run(self):
        self._fix_aggregate_types()
        order = list(nx.topological_sort(self.dag))
        for n in order:
            k = self.kind[n]
            ty = self.types.get(n)
            if k == "params" or ty is None:
                continue
            v = self.var(n)
            if k == "input":
                self.facts[n] = vin.valid_clause(n, v, ty, self.env.params)
            elif n in OPAQUE:
                self.facts[n] = [mk(v) for _, mk in OPAQUE[n]["facts"]]
                self.assumed_contracts.append(n)
            elif k == "scalar_rule":
                self._scalar(n, v, ty)
            elif k in ("aggregate_by_group", "aggregate_by_p_id"):
                self._aggregate(n, v, ty)
            elif k == "time_conversion":
                (src,) = list(inspect.signature(self.fno[n]).parameters)
                fs = []
                if self._nonneg(src):
                    fs.append(v >= 0)
                self.facts[n] = fs
            elif k == "grouping":
                self.facts[n] = [v >= 0]
            elif k == "array_rule":
                self._array_rule(n, v, ty)
        return self

    def _apply_rounding(self, n, f, res):
        """C10 contract of the rounding wrapper (proved there): base*ceil|floor|round(x/base)+offset"""
        info = getattr(f, "__info__", None) or {}
        key = info.get("params_key_for_rounding")
        if not (self.rounding and key):
            return res
        spec = self.env.params.get(key, {}).get("rounding", {}).get(n)
        if not spec or "base" not in spec or "direction" not in spec:
            self.rounding_missing.append(n)
            return res
        from fractions import Fraction

        def fr(x):
            return symx.frac_to_z3real(Fraction(repr(float(x))) if isinstance(x, float) else Fraction(x))

        b, o = fr(spec["base"]), fr(spec.get("to_add_after_rounding", 0))
        q = res / b
        fl = z3.ToInt(q)
        if spec["direction"] == "down":
            k = fl
        elif spec["direction"] == "up":
            k = z3.If(z3.ToReal(fl) == q, fl, fl + 1)
        else:
            frac = q - z3.ToReal(fl)
            half = z3.RealVal("1/2")
            k = z3.If(frac < half, fl, z3.If(frac > half, fl + 1, z3.If(fl % 2 == 0, fl, fl + 1)))
        return b * z3.ToReal(k) + o

    def closed_form(self, target, stop=(), suffix_map=None):
        """Inline the result terms of scalar-rule ancestors of `target` (topological order) down to
        inputs / cut points (aggregates, groupings, opaque nodes, anything in `stop`).
        suffix_map: {node name: z3 const to use instead of the node's own constant} (for 2-copy
        queries). -> z3 term over the remaining (cut) variables."""
        suffix_map = suffix_map or {}
        anc = nx.ancestors(self.dag, target) | {target}
        order = [n for n in nx.topological_sort(self.dag) if n in anc]
        cur = {}
        for n in order:
            if n in stop or n not in self.result_terms:
                if n in suffix_map and self.types.get(n):
                    cur[n] = suffix_map[n]
                continue
            t = self.result_terms[n]
            s = self.summaries[n]
            subs = []
            for a, (term, _) in s.args.items():
                if a in cur:
                    rep = cur[a]
                    if term.sort() != rep.sort():
                        if z3.is_int(term) and z3.is_real(rep):
                            rep = z3.ToInt(rep)
                        elif z3.is_real(term) and z3.is_int(rep):
                            rep = z3.ToReal(rep)
                    subs.append((term, rep))
            cur[n] = z3.substitute(t, *subs) if subs else t
        return cur[target]

    def _nonneg(self, src):
        """is `src >= 0` among the facts of src (syntactically or by the solver)?"""
        if src not in self.types or self.types[src] is None:
            return False
        if self.types[src] == "bool":
            return True
        v = self.var(src)
        fs = self.facts.get(src, [])
        if any(f.eq(v >= 0) for f in fs):
            return True
        if not fs:
            return False
        r = solve.check([*fs, v < 0], self.timeout_s)
        self.n_queries += 1
        self.solver_seconds += r.seconds
        return r.status == "unsat"

    def _aggregate(self, n, v, ty):
        f = self.fno[n]
        kind, by = agg_kind(f)
        params = list(inspect.signature(f).parameters)
        fs = []
        if ty == "bool":
            self.facts[n] = fs
            return
        if kind == "count":
            fs.append(v >= 1)
        elif kind == "sum" and by == "p_id" and self.types.get(params[0]) == "bool":
            # number of persons pointing to one person (children of a recipient): VALID bound
            fs.append(v >= 0)
            fs.append(v <= vin.MAX_POINTING)
        elif kind in ("sum", "max", "min", "mean"):
            src = params[0]
            if self._nonneg(src):
                fs.append(v >= 0)
            if kind in ("max", "min") and src in self.facts:
                # bounds of the source carry over to max / min of a non-empty group
                sv = self.var(src) if self.types.get(src) else None
                if sv is not None and self.types.get(src) == ty:
                    for c in self.facts[src]:
                        fs.append(z3.substitute(c, (sv, v)))
        self.facts[n] = fs

    def _array_rule(self, n, v, ty):
        fs = []
        if ty in ("float", "int"):
            # join: value of some row of the target column, or the default (read from the call)
            f0 = inspect.unwrap(self.fno[n])
            tree = ast.parse(textwrap.dedent(inspect.getsource(f0)))
            calls = [c for c in ast.walk(tree) if isinstance(c, ast.Call) and getattr(c.func, "id", None) == "join_numpy"]
            rets = [r for r in ast.walk(tree) if isinstance(r, ast.Return)]
            if len(calls) == 1 and len(rets) == 1 and rets[0].value is calls[0]:
                c = calls[0]
                target = c.args[2].id if len(c.args) > 2 and isinstance(c.args[2], ast.Name) else None
                default = None
                for kw in c.keywords:
                    if kw.arg == "value_if_foreign_key_is_missing" and isinstance(kw.value, ast.Constant):
                        default = kw.value.value
                if len(c.args) > 3 and isinstance(c.args[3], ast.Constant):
                    default = c.args[3].value
                if target and default is not None and default >= 0 and self._nonneg(target):
                    fs.append(v >= 0)
        self.facts[n] = fs

    def _scalar(self, n, v, ty):
        f = self.fno[n]
        f0 = inspect.unwrap(f)
        names = [a for a in inspect.signature(f0).parameters]
        sym = {}
        for a in names:
            if a.endswith("_params"):
                continue
            t = self.types.get(a)
            if t is None:
                self.unsupported[n] = f"argument {a} has no producer/type"
                self.facts[n] = []
                return
            sym[a] = t
        try:
            s = symx.summarise(f, sym_args=sym, conc_args=self.env.conc_params_for(f), range_bound=rules.RANGE_BOUND, suffix=self.suffix)
        except symx.Unsupported as ex:
            self.unsupported[n] = str(ex)
            self.facts[n] = []
            return
        self.summaries[n] = s
        fs = []
        if isinstance(s.result, symx.Undefined):
            self.facts[n] = fs
            return
        if ty == "bool":
            try:
                t = symx.Executor().truthy(s.result)
                self.result_terms[n] = symx._b(t)
            except symx.Unsupported as ex:
                self.unsupported[n] = f"result: {ex}"
            self.facts[n] = fs
            return
        pre = self.pre_of([a for a in sym])
        try:
            res = symx.real_term(s.result, pre, self.timeout_s)
        except (symx.InfiniteValue, symx.Unsupported) as ex:
            self.unsupported[n] = f"result: {ex}"
            self.facts[n] = fs
            return
        res = self._apply_rounding(n, f, res)
        # constant propagation: parents proved constant are substituted (smaller, linear terms)
        subs = [(s.args[a][0], self.consts[a]) for a in sym if a in self.consts and a in s.args]
        if subs:
            res = z3.simplify(z3.substitute(res, *[(t, c if c.sort() == t.sort() else (z3.ToInt(c) if z3.is_int(t) else z3.ToReal(c))) for t, c in subs]))
        self.result_terms[n] = res
        # only returning paths matter: a path that raises yields no value
        ret_guard = symx.mk_or(*[g for g, _ in s.returns])
        cands = [("nonneg", lambda r: r >= 0, v >= 0), ("pos", lambda r: r > 0, v > 0)]
        simp = z3.simplify(res)
        if z3.is_rational_value(simp) or z3.is_int_value(simp):
            cval = simp if ty == "float" else z3.IntVal(simp.as_long()) if z3.is_int_value(simp) else simp
            cands = [("const", lambda r, c=simp: r == c, v == cval)]
        for name, mk in self.extra_candidates.get(n, []):
            cands.append((name, mk, mk(v)))
        for cname, mk, fact in cands:
            q = [*pre, ret_guard, z3.Not(mk(res))]
            r = solve.check(q, self.timeout_s)
            self.n_queries += 1
            self.solver_seconds += r.seconds
            if r.status == "unsat":
                fs.append(fact)
                self.proved.append((n, cname))
                if cname == "const":
                    self.consts[n] = simp
            else:
                self.rejected.append((n, cname, r.status))
        self.facts[n] = fs
