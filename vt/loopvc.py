"""E2 `loopvc` -- verification-condition generation for the array kernels (groupings.py,
sum_by_p_id): functions of the shape

    <initialisations>            x = {} | [] | 0 | Counter() | numpy.zeros_like(a, ...) | {k: i for i, k in enumerate(a)}
    for i, cur in enumerate(a):  <body: assignments, if/elif/else, dict / Counter / list / array updates, continue, raise>
    return numpy.asarray(result) | out | [d[x] for x in a]

The loop is cut at its head with the invariant from the sidecar contract; the body is executed
symbolically (all paths) on z3 arrays with NO bound on the number of rows:
    arrays        -> Array(Int, Int|Bool|Real) + length N
    list          -> (Array, length)
    dict int->int -> (domain Array(Int,Bool), value Array(Int,Int))
    Counter       -> Array(Int,Int), default 0
Obligations: init, preservation per invariant conjunct and path, post, exceptional post, safety
(dict look-ups hit the domain, array indices in range). The text executed is the real source
(inspect.getsource of the function object), re-read on every run.
"""
from __future__ import annotations

import ast
import inspect
import os
import textwrap

import z3

I = z3.IntSort()
B = z3.BoolSort()
R = z3.RealSort()


class Unsupported(Exception):
    pass


class SArr:
    def __init__(self, arr, n, sort):
        self.arr, self.n, self.sort = arr, n, sort

    def copy(self):
        return SArr(self.arr, self.n, self.sort)


class SList:
    def __init__(self, arr, ln):
        self.arr, self.len = arr, ln

    def copy(self):
        return SList(self.arr, self.len)


class SDict:
    def __init__(self, dom, val):
        self.dom, self.val = dom, val

    def copy(self):
        return SDict(self.dom, self.val)


class SDictList:
    """dict int -> list of int: domain, per-key element array, per-key length"""

    def __init__(self, dom, elems, lens):
        self.dom, self.elems, self.lens = dom, elems, lens

    def copy(self):
        return SDictList(self.dom, self.elems, self.lens)


class SCounter:
    def __init__(self, arr):
        self.arr = arr

    def copy(self):
        return SCounter(self.arr)


def copy_state(st):
    return {k: (v.copy() if hasattr(v, "copy") and not z3.is_expr(v) else v) for k, v in st.items()}


class Path:
    def __init__(self, state, pc, outcome="fall", exc=None):
        self.state, self.pc, self.outcome, self.exc = state, pc, outcome, exc


class LoopVC:
    def __init__(self, func):
        self.func = inspect.unwrap(func)
        src = textwrap.dedent(inspect.getsource(self.func))
        self.node = ast.parse(src).body[0]
        self.safety = []  # (pc, condition that must hold, description)
        self.assumed = []  # (marker, formula): hypotheses introduced while executing (inner invariants, list concatenation)
        self.fresh = 0
        self.filename = inspect.getsourcefile(self.func)
        self.firstline = self.func.__code__.co_firstlineno

    def where(self, n):
        return f"{self.filename.replace(os.environ.get('VERIF_REPO', '/repo') + '/', '')}:{self.firstline + getattr(n, 'lineno', 1) - 1}"

    # ---------------------------------------------------------------- structure
    def split(self):
        """-> (pre statements, [loops], post statements) ; docstring dropped"""
        body = [s for s in self.node.body if not (isinstance(s, ast.Expr) and isinstance(s.value, ast.Constant))]
        pre, loops, post = [], [], []
        for s in body:
            if isinstance(s, ast.For):
                loops.append(s)
            elif loops:
                post.append(s)
            else:
                pre.append(s)
        return pre, loops, post

    def segments(self):
        """-> ([statements before loop 0, between loop 0 and 1, ..., after the last loop], [loops])"""
        body = [s for s in self.node.body if not (isinstance(s, ast.Expr) and isinstance(s.value, ast.Constant))]
        segs, loops = [[]], []
        for s in body:
            if isinstance(s, ast.For):
                loops.append(s)
                segs.append([])
            else:
                segs[-1].append(s)
        return segs, loops

    def loop_header(self, loop):
        """for <i>, <cur> in enumerate(<arr>)  -> (i name, cur name, arr name)"""
        it = loop.iter
        if not (isinstance(it, ast.Call) and getattr(it.func, "id", None) == "enumerate" and len(it.args) == 1 and isinstance(it.args[0], ast.Name)):
            raise Unsupported("loop is not `for i, x in enumerate(array)`")
        t = loop.target
        if not (isinstance(t, ast.Tuple) and len(t.elts) == 2 and all(isinstance(e, ast.Name) for e in t.elts)):
            raise Unsupported("loop target is not a pair of names")
        return t.elts[0].id, t.elts[1].id, it.args[0].id

    # ---------------------------------------------------------------- expressions
    def ev(self, e, st, pc):  # noqa: C901, PLR0911, PLR0912
        if isinstance(e, ast.Constant):
            v = e.value
            if isinstance(v, bool):
                return z3.BoolVal(v)
            if isinstance(v, int):
                return z3.IntVal(v)
            if isinstance(v, float):
                return z3.RealVal(repr(v))
            if isinstance(v, str):
                return z3.StringVal(v)
            raise Unsupported(f"constant {v!r}")
        if isinstance(e, ast.JoinedStr):
            return z3.StringVal("<f-string>")
        if isinstance(e, ast.Name):
            if e.id not in st:
                raise Unsupported(f"unknown name {e.id}")
            return st[e.id]
        if isinstance(e, ast.Subscript):
            obj = self.ev(e.value, st, pc)
            key = self.ev(e.slice, st, pc)
            if isinstance(obj, SArr):
                self.safety.append((pc, z3.And(key >= 0, key < obj.n), f"index in range @{self.where(e)}"))
                return z3.Select(obj.arr, key)
            if isinstance(obj, SDict):
                self.safety.append((pc, z3.Select(obj.dom, key), f"dict key present (no KeyError) @{self.where(e)}"))
                return z3.Select(obj.val, key)
            if isinstance(obj, SCounter):
                return z3.Select(obj.arr, key)
            if isinstance(obj, SList):
                self.safety.append((pc, z3.And(key >= 0, key < obj.len), f"list index in range @{self.where(e)}"))
                return z3.Select(obj.arr, key)
            raise Unsupported("subscript of a scalar")
        if isinstance(e, ast.Compare):
            left = self.ev(e.left, st, pc)
            out = []
            for op, rn in zip(e.ops, e.comparators):
                if isinstance(op, (ast.In, ast.NotIn)):
                    right = self.ev(rn, st, pc)
                    if not isinstance(right, (SDict, SDictList)):
                        raise Unsupported("`in` on a non-dict")
                    c = z3.Select(right.dom, left)
                    out.append(z3.Not(c) if isinstance(op, ast.NotIn) else c)
                    left = None
                    continue
                right = self.ev(rn, st, pc)
                out.append(self.cmp(op, left, right))
                left = right
            return z3.And(*out) if len(out) > 1 else out[0]
        if isinstance(e, ast.BoolOp):
            vals = [self.truth(self.ev(v, st, pc)) for v in e.values]
            return z3.And(*vals) if isinstance(e.op, ast.And) else z3.Or(*vals)
        if isinstance(e, ast.UnaryOp) and isinstance(e.op, ast.Not):
            return z3.Not(self.truth(self.ev(e.operand, st, pc)))
        if isinstance(e, ast.UnaryOp) and isinstance(e.op, ast.USub):
            return -self.ev(e.operand, st, pc)
        if isinstance(e, ast.BinOp):
            a, b = self.ev(e.left, st, pc), self.ev(e.right, st, pc)
            if isinstance(a, SList) and isinstance(b, SList) and isinstance(e.op, ast.Add):
                # a + b on lists: a fresh array with its two defining axioms as global hypotheses (conservative: the
                # array is new); the second, shifted form gives the solver the instance cat[len(a) + m] for a member b[m]
                self.fresh += 1
                cat = z3.Array(f"cat!{self.fresh}", I, I)
                mm, m2 = z3.Int(f"catm!{self.fresh}"), z3.Int(f"catn!{self.fresh}")
                self.assumed.append((z3.BoolVal(True), z3.ForAll([mm], z3.Select(cat, mm) == z3.If(mm < a.len, z3.Select(a.arr, mm), z3.Select(b.arr, mm - a.len)))))
                self.assumed.append((z3.BoolVal(True), z3.ForAll([m2], z3.Implies(z3.And(0 <= m2, m2 < b.len), z3.Select(cat, a.len + m2) == z3.Select(b.arr, m2)))))
                return SList(cat, a.len + b.len)
            a, b = self.num(a), self.num(b)
            if isinstance(e.op, ast.Add):
                return a + b
            if isinstance(e.op, ast.Sub):
                return a - b
            if isinstance(e.op, ast.Mult):
                return a * b
            raise Unsupported(f"operator {type(e.op).__name__}")
        if isinstance(e, ast.Call):
            f = e.func
            if isinstance(f, ast.Attribute) and f.attr == "get" and len(e.args) == 2:
                d = self.ev(f.value, st, pc)
                if isinstance(d, SDictList) and isinstance(e.args[1], ast.List) and not e.args[1].elts:
                    key = self.ev(e.args[0], st, pc)
                    present = z3.Select(d.dom, key)
                    return SList(z3.If(present, z3.Select(d.elems, key), z3.K(I, z3.IntVal(0))), z3.If(present, z3.Select(d.lens, key), z3.IntVal(0)))
                if isinstance(d, (SDict, SDictList)):
                    raise Unsupported("dict.get with a default other than `[]` on a dict of lists")
            if isinstance(f, ast.Name) and f.id == "len" and len(e.args) == 1:
                o = self.ev(e.args[0], st, pc)
                if isinstance(o, SArr):
                    return o.n
                if isinstance(o, SList):
                    return o.len
            raise Unsupported(f"call {ast.unparse(f)}")
        raise Unsupported(f"expression {type(e).__name__}")

    @staticmethod
    def num(a):
        if z3.is_bool(a):
            return z3.If(a, z3.IntVal(1), z3.IntVal(0))
        return a

    @staticmethod
    def truth(a):
        if z3.is_bool(a):
            return a
        if z3.is_expr(a):
            return a != 0
        raise Unsupported("truth value of a container")

    def cmp(self, op, a, b):
        if z3.is_bool(a) and z3.is_bool(b):
            if isinstance(op, ast.Eq):
                return a == b
            if isinstance(op, ast.NotEq):
                return a != b
        a, b = self.num(a), self.num(b)
        return {ast.Lt: a < b, ast.LtE: a <= b, ast.Gt: a > b, ast.GtE: a >= b, ast.Eq: a == b, ast.NotEq: a != b}[type(op)]

    # ---------------------------------------------------------------- statements
    def run_block(self, stmts, path):
        paths = [path]
        for s in stmts:
            nxt = []
            for p in paths:
                if p.outcome != "fall":
                    nxt.append(p)
                else:
                    nxt.extend(self.run_stmt(s, p))
            paths = nxt
        return paths

    def run_stmt(self, s, p):  # noqa: C901, PLR0911, PLR0912
        st, pc = p.state, p.pc
        if isinstance(s, ast.Expr) and isinstance(s.value, ast.Constant):
            return [p]
        if (isinstance(s, ast.Assign) and len(s.targets) == 1 and isinstance(s.targets[0], ast.Subscript) and isinstance(s.targets[0].value, ast.Name)
                and isinstance(st.get(s.targets[0].value.id), SDictList)):
            # d[key] = []   (the only store into a dict of lists that the subset admits)
            if not (isinstance(s.value, ast.List) and not s.value.elts):
                raise Unsupported(f"store into a dict of lists other than `d[k] = []` @{self.where(s)}")
            key = self.ev(s.targets[0].slice, st, pc)
            st = copy_state(st)
            d = st[s.targets[0].value.id]
            d.dom = z3.Store(d.dom, key, z3.BoolVal(True))
            d.lens = z3.Store(d.lens, key, z3.IntVal(0))
            return [Path(st, pc)]
        if isinstance(s, ast.Assign) and len(s.targets) == 1:
            t = s.targets[0]
            v = self.ev(s.value, st, pc)
            st = copy_state(st)
            self.store(t, v, st, pc)
            return [Path(st, pc)]
        if isinstance(s, ast.AugAssign):
            cur = self.ev(_as_load(s.target), st, pc)
            v = self.ev(s.value, st, pc)
            if not isinstance(s.op, (ast.Add, ast.Sub)):
                raise Unsupported("augmented assignment other than += / -=")
            new = self.num(cur) + self.num(v) if isinstance(s.op, ast.Add) else self.num(cur) - self.num(v)
            st = copy_state(st)
            self.store(s.target, new, st, pc)
            return [Path(st, pc)]
        if isinstance(s, ast.If):
            c = self.truth(self.ev(s.test, st, pc))
            a = self.run_block(s.body, Path(copy_state(st), z3.And(pc, c)))
            b = self.run_block(s.orelse, Path(copy_state(st), z3.And(pc, z3.Not(c))))
            return a + b
        if isinstance(s, ast.Expr) and isinstance(s.value, ast.Call):
            c = s.value
            if (isinstance(c.func, ast.Attribute) and c.func.attr == "append" and isinstance(c.func.value, ast.Subscript)
                    and isinstance(c.func.value.value, ast.Name) and isinstance(st.get(c.func.value.value.id), SDictList)):
                dname = c.func.value.value.id
                key = self.ev(c.func.value.slice, st, pc)
                v = self.num(self.ev(c.args[0], st, pc))
                self.safety.append((pc, z3.Select(st[dname].dom, key), f"dict key present (no KeyError) @{self.where(c)}"))
                st = copy_state(st)
                d = st[dname]
                ln = z3.Select(d.lens, key)
                d.elems = z3.Store(d.elems, key, z3.Store(z3.Select(d.elems, key), ln, v))
                d.lens = z3.Store(d.lens, key, ln + 1)
                return [Path(st, pc)]
            if isinstance(c.func, ast.Attribute) and c.func.attr == "append" and isinstance(c.func.value, ast.Name):
                lst = st.get(c.func.value.id)
                if not isinstance(lst, SList):
                    raise Unsupported("append on a non-list")
                v = self.num(self.ev(c.args[0], st, pc))
                st = copy_state(st)
                l2 = st[c.func.value.id]
                l2.arr = z3.Store(l2.arr, l2.len, v)
                l2.len = l2.len + 1
                return [Path(st, pc)]
            raise Unsupported(f"call statement {ast.unparse(c.func)}")
        if isinstance(s, ast.For):
            return self.inner_loop(s, p)
        if isinstance(s, ast.Continue):
            return [Path(st, pc, "continue")]
        if isinstance(s, ast.Raise):
            name = ast.unparse(s.exc.func if isinstance(s.exc, ast.Call) else s.exc) if s.exc else "Exception"
            return [Path(st, pc, "raise", name)]
        if isinstance(s, ast.Pass):
            return [p]
        raise Unsupported(f"statement {type(s).__name__} @{self.where(s)}")

    def havoc(self, st, names, tag):
        out = copy_state(st)
        for n in names:
            v = st.get(n)
            if isinstance(v, SDict):
                out[n] = SDict(z3.Array(f"{n}!dom{tag}", I, B), z3.Array(f"{n}!val{tag}", I, I))
            elif isinstance(v, SList):
                out[n] = SList(z3.Array(f"{n}!arr{tag}", I, I), z3.Int(f"{n}!len{tag}"))
            elif isinstance(v, SCounter):
                out[n] = SCounter(z3.Array(f"{n}!cnt{tag}", I, I))
            elif isinstance(v, SDictList):
                out[n] = SDictList(z3.Array(f"{n}!dom{tag}", I, B), z3.Array(f"{n}!elems{tag}", I, z3.ArraySort(I, I)), z3.Array(f"{n}!lens{tag}", I, I))
            elif isinstance(v, SArr):
                raise Unsupported("inner loop writes an array")
            elif z3.is_expr(v):
                out[n] = z3.Const(f"{n}!{tag}", v.sort())
            elif n in out:
                del out[n]
        return out

    def inner_loop(self, s, p):
        """`for x in <list>:` inside the outer iteration, cut at its head with the contract's inner invariant
        (self.inner_inv(entry state, state, t, list) -> [(name, formula)]): init / preservation become obligations
        under the current path condition; afterwards the state is havocked and the invariant assumed at len(list)."""
        if getattr(self, "inner_inv", None) is None:
            raise Unsupported(f"nested loop without an inner invariant @{self.where(s)}")
        if not (isinstance(s.target, ast.Name) and isinstance(s.iter, ast.Name) and not s.orelse):
            raise Unsupported(f"nested loop is not `for x in name` @{self.where(s)}")
        st, pc = p.state, p.pc
        lst = st.get(s.iter.id)
        if not isinstance(lst, SList):
            raise Unsupported("nested loop over a non-list")
        mod = set()
        for n in ast.walk(s):
            if isinstance(n, (ast.Assign, ast.AugAssign)):
                for t in (n.targets if isinstance(n, ast.Assign) else [n.target]):
                    while isinstance(t, (ast.Subscript, ast.Attribute)):
                        t = t.value
                    if isinstance(t, ast.Name):
                        mod.add(t.id)
            if isinstance(n, ast.Call) and isinstance(n.func, ast.Attribute) and n.func.attr in ("append", "extend", "update", "pop", "clear", "setdefault", "add", "insert", "remove", "sort"):
                t = n.func.value
                while isinstance(t, (ast.Subscript, ast.Attribute)):
                    t = t.value
                if isinstance(t, ast.Name):
                    mod.add(t.id)
            if isinstance(n, (ast.Break, ast.Return)):
                raise Unsupported("break / return inside a nested loop")
        if s.iter.id in mod:
            raise Unsupported("nested loop modifies the list it iterates over")
        self.fresh += 1
        tag = f"in{self.fresh}"
        where = self.where(s)
        for cname, f in self.inner_inv(st, st, z3.IntVal(0), lst):
            self.safety.append((pc, f, f"inner loop @{where}: init {cname}"))
        t = z3.Int(f"t!{tag}")
        sh = self.havoc(st, mod, tag + "a")
        hyp = z3.And(pc, 0 <= t, t < lst.len, *[f for _, f in self.inner_inv(st, sh, t, lst)])
        sh[s.target.id] = z3.Select(lst.arr, t)
        for bi, bp in enumerate(self.run_block(s.body, Path(sh, hyp))):
            if bp.outcome == "raise":
                self.safety.append((bp.pc, z3.BoolVal(False), f"inner loop @{where}: path {bi} raises {bp.exc}: unreachable"))
                continue
            for cname, f in self.inner_inv(st, bp.state, t + 1, lst):
                self.safety.append((bp.pc, f, f"inner loop @{where}: preservation path {bi}: {cname}"))
        sx = self.havoc(st, mod | {s.target.id}, tag + "x")
        # the assumed invariant enters the path condition through a marker, so that the path-coverage obligation
        # can be stated over the branch conditions alone (marker := true) -- see kernels.verification_conditions
        marker = z3.Bool(f"assumed!{tag}")
        self.assumed.append((marker, z3.And(*[f for _, f in self.inner_inv(st, sx, lst.len, lst)])))
        return [Path(sx, z3.And(pc, marker))]

    def store(self, t, v, st, pc):
        if isinstance(t, ast.Name):
            st[t.id] = v
            return
        if isinstance(t, ast.Subscript) and isinstance(t.value, ast.Name):
            obj = st.get(t.value.id)
            key = self.ev(t.slice, st, pc)
            v = self.num(v) if not isinstance(obj, SArr) or obj.sort != B else v
            if isinstance(obj, SDict):
                obj.dom = z3.Store(obj.dom, key, z3.BoolVal(True))
                obj.val = z3.Store(obj.val, key, v)
                return
            if isinstance(obj, SCounter):
                obj.arr = z3.Store(obj.arr, key, v)
                return
            if isinstance(obj, SArr):
                self.safety.append((pc, z3.And(key >= 0, key < obj.n), f"store index in range @{self.where(t)}"))
                obj.arr = z3.Store(obj.arr, key, v)
                return
        raise Unsupported(f"store target {ast.unparse(t)}")

    # ---------------------------------------------------------------- one loop iteration
    def iteration(self, loop, state, k):
        """all paths of one iteration started in `state` with loop index k"""
        iname, cname, aname = self.loop_header(loop)
        arr = state[aname]
        st = copy_state(state)
        st[iname] = k
        st[cname] = z3.Select(arr.arr, k)
        self.safety = []
        self.assumed = []
        paths = self.run_block(loop.body, Path(st, z3.BoolVal(True)))
        return paths, list(self.safety)


def _as_load(t):
    if isinstance(t, ast.Name):
        return ast.Name(id=t.id, ctx=ast.Load())
    if isinstance(t, ast.Subscript):
        return ast.Subscript(value=t.value, slice=t.slice, ctx=ast.Load())
    raise Unsupported("augmented assignment target")
