"""Mathematical meaning of a `piecewise_*` parameter, resolved in exact rationals from the
raw (date-resolved) YAML dictionary. Written from the documented YAML layout (GEP-3 and the
parameter files), independently of piecewise_functions.py / add_progressionsfaktor.

piece i : lower_i <= x < upper_i ;  value_i(x) = c_i + sum_p r_p,i * (x - lower_i)^p   (i >= 1)
piece 0 : lower_0 = -inf, value = c_0 (all rates of piece 0 must be zero)
thresholds inherit from the neighbour when omitted; intercepts are either all given or follow
from continuity; with `progressionsfaktor: true` a missing quadratic rate of piece i is
(rate_linear_{i+1} - rate_linear_i) / (2 (upper_i - lower_i)).
"""
from __future__ import annotations

import math
from fractions import Fraction

INF = float("inf")


class SpecError(Exception):
    pass


def num(x):
    """YAML scalar -> Fraction | +-inf (exact decimal value of the literal)"""
    if isinstance(x, bool):
        raise SpecError("boolean where a number is expected")
    if isinstance(x, int):
        return Fraction(x)
    if isinstance(x, float):
        if math.isinf(x):
            return x
        if math.isnan(x):
            raise SpecError("nan")
        return Fraction(repr(x))
    if isinstance(x, str) and x.strip() in ("inf", "-inf"):
        return INF if x.strip() == "inf" else -INF
    raise SpecError(f"not a number: {x!r}")


def resolve(raw: dict):
    """raw: {'type': 'piecewise_linear|quadratic|cubic', ['progressionsfaktor': bool], 0: {...}, 1: {...}}
    -> dict(thresholds=[t_0..t_n], rates=[[r_1,i],[r_2,i],..], intercepts=[c_i])"""
    typ = raw.get("type", "")
    degree = {"piecewise_linear": 1, "piecewise_quadratic": 2, "piecewise_cubic": 3}.get(typ)
    if degree is None:
        raise SpecError(f"unknown type {typ!r}")
    keys = sorted(k for k in raw if isinstance(k, int))
    if keys != list(range(len(keys))) or not keys:
        raise SpecError("piece keys must be 0..n-1")
    n = len(keys)
    lower = [None] * n
    upper = [None] * n
    for i in keys:
        p = raw[i]
        if "lower_threshold" in p:
            lower[i] = num(p["lower_threshold"])
        if "upper_threshold" in p:
            upper[i] = num(p["upper_threshold"])
    for i in keys:
        if lower[i] is None and i > 0 and upper[i - 1] is not None:
            lower[i] = upper[i - 1]
        if upper[i] is None and i + 1 < n and lower[i + 1] is not None:
            upper[i] = lower[i + 1]
    if any(v is None for v in lower + upper):
        raise SpecError("threshold missing")
    if lower[0] != -INF or upper[-1] != INF:
        raise SpecError("schedule does not cover the real line")
    for i in range(n - 1):
        if upper[i] != lower[i + 1]:
            raise SpecError(f"gap/overlap between piece {i} and {i + 1}")
    thresholds = [lower[0], *upper]
    for a, b in zip(thresholds, thresholds[1:]):
        if not a < b:
            raise SpecError("thresholds not strictly increasing")
    names = ["rate_linear", "rate_quadratic", "rate_cubic"][:degree]
    rates = [[None] * n for _ in range(degree)]
    for i in keys:
        p = raw[i]
        for d, nm in enumerate(names):
            if nm in p:
                rates[d][i] = num(p[nm])
            elif d == 0 and degree == 1 and "rate" in p:
                rates[d][i] = num(p["rate"])
    if raw.get("progressionsfaktor"):
        for i in keys:
            if degree >= 2 and rates[1][i] is None:
                if i + 1 >= n or rates[0][i + 1] is None or rates[0][i] is None:
                    raise SpecError(f"progressionsfaktor of piece {i} undefined")
                width = upper[i] - lower[i]
                if isinstance(width, float):  # infinite piece
                    rates[1][i] = Fraction(0)
                else:
                    rates[1][i] = (rates[0][i + 1] - rates[0][i]) / (2 * width)
    for d in range(degree):
        for i in keys:
            if rates[d][i] is None:
                raise SpecError(f"{names[d]} of piece {i} missing")
    given = [i for i in keys if "intercept_at_lower_threshold" in raw[i]]
    if 0 not in given:
        raise SpecError("first piece needs an intercept")
    c = [None] * n
    c[0] = num(raw[0]["intercept_at_lower_threshold"])
    if len(given) == n:
        for i in keys:
            c[i] = num(raw[i]["intercept_at_lower_threshold"])
    elif len(given) == 1:
        for i in range(1, n):
            if i == 1:
                c[1] = c[0]  # piece 0 is constant (rates must vanish on an infinite piece)
            else:
                w = thresholds[i] - thresholds[i - 1]
                c[i] = c[i - 1] + sum(rates[d][i - 1] * w ** (d + 1) for d in range(degree))
    else:
        raise SpecError("either only the first or all intercepts must be given")
    return {"thresholds": thresholds, "rates": rates, "intercepts": c, "degree": degree, "piece0_rates_zero": all(rates[d][0] == 0 for d in range(degree))}


def evaluate(spec, x: Fraction):
    t = spec["thresholds"]
    n = len(t) - 1
    for i in range(n):
        if t[i] <= x < t[i + 1]:
            if i == 0:
                return spec["intercepts"][0]
            inc = x - t[i]
            return spec["intercepts"][i] + sum(spec["rates"][d][i] * inc ** (d + 1) for d in range(spec["degree"]))
    raise SpecError("x outside the real line?")


def from_arrays(thresholds, rates, intercepts):
    """exact spec object from the float arrays the environment holds"""

    def cv(v):
        v = float(v)
        return v if math.isinf(v) else Fraction(repr(v))

    t = [cv(v) for v in thresholds]
    deg = len(rates)
    r = [[cv(v) for v in row] for row in rates]
    c = [cv(v) for v in intercepts]
    return {"thresholds": t, "rates": r, "intercepts": c, "degree": deg, "piece0_rates_zero": all(r[d][0] == 0 for d in range(deg))}
