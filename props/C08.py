"""C08 -- every supported date (>= 2015-01-01) yields a complete, computable system.

Per date class d >= 2015-01-01 (every interval between change dates is one class):
  G1  all default targets exist at d
  G2  the real DAG of the default targets is acyclic
  G3  every root is a documented input (TYPES_INPUT_VARIABLES or docs/input_variables.md) or a
      parameter group that exists at d
  G4  every rule of the DAG that carries a rounding key has base and direction at d
  G5  no aggregate node of the DAG uses a not-implemented *_by_p_id kernel
  S   E1 safety obligations for EVERY scalar rule of the DAG on EVERY feasible path under VALID
      and the proved facts of its parents (vt/facts.py): parameter / array subscripts resolve
      (concrete keys looked up; symbolic keys become `path => key in keys`), no `raise`
      reachable, no unbound local, range bounds respected, no constant zero divisor
The model of a refuted obligation is replayed on the real scalar rule (it must raise).
"""
from __future__ import annotations

import datetime
import importlib
import inspect
import json

import networkx as nx
import z3

from contracts import inputs as vin
from vt import env as venv
from vt import facts, par, rules, solve, symx
from vt.report import ASSUMPTIONS, Report

SAFETY_KINDS = {"key", "index", "raise", "undefined", "range_bound", "contract"}


def _worker(dates):
    from _gettsim.config import DEFAULT_TARGETS, TYPES_INPUT_VARIABLES

    documented = set(TYPES_INPUT_VARIABLES) | venv.documented_inputs()
    out = {"items": {}, "n_obl": 0, "n_rules": 0, "solver_s": 0.0, "dates": [str(d[0]) for d in dates], "assumed": set()}
    seen = {}
    days = []
    for lo, hi in dates:
        days.append(lo)
        if hi != lo:
            # "nothing changes inside a class" is C07's statement; it is not relied upon here: if the real
            # loader returns anything different on the last day of the class, that day is verified as well
            e_lo, e_hi = venv.Env(lo), venv.Env(hi)
            same = rules.group_fps(e_lo) == rules.group_fps(e_hi) and {n: inspect.unwrap(f).__qualname__ for n, f in e_lo.functions.items()} == {n: inspect.unwrap(f).__qualname__ for n, f in e_hi.functions.items()}
            out["n_last_days_compared"] = out.get("n_last_days_compared", 0) + 1
            if not same:
                days.append(hi)
    for d in days:
        e = venv.Env(d)
        tag = str(d)
        df = facts.DagFacts(e)

        def put(name, status, detail="", **kw):
            out["items"][f"{name}@{tag}"] = {"name": name, "date": tag, "status": status, "detail": detail, **kw}

        missing = list(getattr(e, "missing_targets", []))
        put("G1 all default targets exist", "refuted" if missing else "discharged", f"missing: {missing}" if missing else "", failing="targets")
        try:
            acyclic = nx.is_directed_acyclic_graph(df.dag)
        except Exception as ex:  # noqa: BLE001
            acyclic = False
        put("G2 DAG acyclic", "discharged" if acyclic else "refuted", "" if acyclic else str(list(nx.simple_cycles(df.dag))[:2]))
        if not acyclic:
            continue
        roots = [n for n in df.dag.nodes if not list(df.dag.predecessors(n))]
        bad_roots = []
        for r in roots:
            if r.endswith("_params"):
                if r[:-7] not in e.params:
                    bad_roots.append(r)
            elif r in df.fno:
                continue  # a parameters-only / argument-less function
            elif r not in documented:
                bad_roots.append(r)
        put("G3 every root is a documented input", "refuted" if bad_roots else "discharged", f"undocumented roots: {bad_roots}" if bad_roots else f"{len(roots)} roots")
        df.run()
        out["assumed"] |= set(df.assumed_contracts)
        put("G4 rounding spec present for every rounded rule of the DAG", "refuted" if df.rounding_missing else "discharged", f"{df.rounding_missing}" if df.rounding_missing else "")
        notimpl = []
        for n in df.dag.nodes:
            if df.kind.get(n) == "aggregate_by_p_id":
                k, _ = facts.agg_kind(df.fno[n])
                if k != "sum":
                    notimpl.append((n, k))
        put("G5 only implemented pointer aggregates are reachable", "refuted" if notimpl else "discharged", str(notimpl) if notimpl else "")
        for n, why in df.unsupported.items():
            put(f"S {n}: rule inside the E1 subset", "unsupported", why)
        fps = rules.group_fps(e)
        for n, s in df.summaries.items():
            out["n_rules"] += 1
            f = df.fno[n]
            f0 = inspect.unwrap(f)
            pre = df.pre_of(list(s.args))
            # dedupe identical (rule, params, parent facts) across date classes
            sig = (f0.__module__, f0.__qualname__, tuple((g, fps.get(g)) for g in [a[:-7] for a in inspect.signature(f0).parameters if a.endswith("_params")]), str(pre))
            if sig in seen:
                out["n_obl"] += seen[sig]
                continue
            cnt = 0
            for i, o in enumerate(s.obligations):
                if o.kind not in SAFETY_KINDS and not (o.kind == "div0" and "constant" in o.detail):
                    continue
                cnt += 1
                r = solve.check([*pre, o.cond], 20)
                out["solver_s"] += r.seconds
                if r.status == "unsat":
                    continue
                name = f"S {n}: {o.kind} {o.detail[:80]} [{o.where.split('/')[-1]}]"
                if r.status == "sat":
                    inp = rules.model_inputs(r.model, s)
                    put(name, "refuted", f"inputs {inp}", inputs=inp, module=f0.__module__, qualname=f0.__qualname__, rule=n, kind=o.kind)
                else:
                    put(name, "unknown", r.reason)
            seen[sig] = cnt
            out["n_obl"] += cnt
    out["assumed"] = sorted(out["assumed"])
    return out


def replay_rule(module, qualname, date, inputs):
    e = venv.Env(datetime.date.fromisoformat(date))
    func = getattr(importlib.import_module(module), qualname)
    f0 = inspect.unwrap(func)
    import numpy

    args = {}
    for k, v in inputs.items():
        ann = symx.annotation_type(func, k)
        args[k] = numpy.bool_(v) if isinstance(v, bool) else numpy.int64(v) if isinstance(v, int) else numpy.float64(v)
    try:
        r = f0(**args, **e.conc_params_for(func))
        return {"raised": None, "result": repr(r)}
    except Exception as ex:  # noqa: BLE001
        return {"raised": f"{type(ex).__name__}: {ex}"}


def replay(path):
    rp = json.loads(open(path).read())
    if "inputs" in rp and "module" in rp:
        r = replay_rule(rp["module"], rp["qualname"], rp["date"], rp["inputs"])
        print(json.dumps(r, indent=1))
        return 1 if r["raised"] else 0
    print(json.dumps(rp, indent=1))
    return 0


def run(tier="quick", seed=0, jobs=16):
    rep = Report("C08", tier, seed, "proof")
    rep.assumptions = [ASSUMPTIONS["A1"], ASSUMPTIONS["A2"], ASSUMPTIONS["A3"], ASSUMPTIONS["A4"], vin.describe(),
                       "rounding=True (the API default): rounded rules enter through the C10 wrapper contract",
                       f"range(1, n+1) over a symbolic count is unrolled {rules.RANGE_BOUND} times; `n <= {rules.RANGE_BOUND}` is itself an obligation",
                       "facts about aggregation / grouping / time-conversion nodes come from the kernel contracts of C11-C13 (assume-guarantee cut points)"]
    rep.trusted = ["dags.create_dag builds the dependency graph from the argument names", "networkx.is_directed_acyclic_graph", "z3 5.1.0 / cvc5 1.4.0", "E1 encoder (vt/symx.py)"]
    last = venv.last_parameter_date()
    class_pairs = venv.date_classes(since=rules.D2015, until=last)
    classes = [c[0] for c in class_pairs]
    results = par.pmap(_worker, par.chunks(class_pairs, jobs), jobs)
    items = {}
    n_obl = 0
    n_rules = 0
    assumed = set()
    ss = 0.0
    for st, job, res in results:
        if st != "ok":
            raise RuntimeError(res)
        items.update(res["items"])
        n_obl += res["n_obl"]
        n_rules += res["n_rules"]
        assumed |= set(res["assumed"])
        ss += res["solver_s"]
    n_listed = 0
    by_key = {}
    for k, it in sorted(items.items()):
        if it["name"].startswith("G"):
            rep.ob(k, it["status"], "graph", 0, "src/_gettsim/interface.py", "structure", it["detail"])
        elif it["status"] != "discharged":
            rep.ob(k, it["status"], "z3", 0, "", it.get("kind", ""), it["detail"])
            n_listed += 1
        if it["status"] == "refuted":
            by_key.setdefault(it["name"], []).append(it)
    rep.add_counts(max(0, n_obl - n_listed), "z3", ss, "S safety obligations")
    for name, its in sorted(by_key.items()):
        it = its[0]
        dates = [x["date"] for x in its]
        if "inputs" in it:
            r = replay_rule(it["module"], it["qualname"], it["date"], it["inputs"])
            what = f"{it['rule']} at {it['date']} (and {len(dates) - 1} more classes) fails for inputs {it['inputs']}: {r['raised'] or 'no exception on replay'}"
            key = f"{it['qualname']}:{it['kind']}"
            rep.violation(key, what, {"module": it["module"], "qualname": it["qualname"], "date": it["date"], "inputs": it["inputs"], "dates": dates, "obligation": name, "replay_result": r}, failing_input_found=bool(r["raised"]))
        else:
            rep.violation(f"{name}@{dates[0]}", f"{name} fails at {dates[0]} (+{len(dates) - 1} classes): {it['detail']}", {"obligation": name, "dates": dates, "detail": it["detail"]}, failing_input_found=True)
    if assumed:
        rep.assumptions.append("assumed (not proved) contracts on rules outside the E1 subset (datetime arithmetic): " + ", ".join(sorted(assumed)))
    rep.functions |= {"src/_gettsim/interface.py:160 set_up_dag", "src/_gettsim/functions_loader.py:45 load_and_check_functions", "all scalar rules of the default-target DAG of every date class >= 2015 (see rule_instances)"}
    rep.samples = [o for o in rep.obligations[:3]]
    return rep.finish({"date_classes": len(classes), "first": str(classes[0]), "last": str(classes[-1]), "rule_instances": n_rules, "safety_obligations": n_obl})
