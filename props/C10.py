"""C10 -- statutory rounding is applied exactly once, on the right grid.

Obligations
  R1  wrapper arithmetic: E1 on the *real* nested `wrapper` of _add_rounding_to_one_function
      (obtained by calling the real decorator factory), for every (base, direction, offset)
      that occurs in any `rounding:` section of the parameter files, for ALL real x:
        up      : r-o >= x  and r-o <  x+base and (r-o)/base integer
        down    : r-o <= x  and r-o >  x-base and (r-o)/base integer
        nearest : |r-o-x| <= base/2          and (r-o)/base integer
      grid points are fixed points; an invalid direction / non-numeric base or offset raises.
  R2  rounding=False: _round_and_partial_parameters_to_functions never calls
      _add_rounding_to_functions; rounding=True: calls it exactly once on (functions, params)
      (E1 with a recording contract for the callee).
  R3  exactly once, exhaustive over the real function universe of every function-set class:
      a function object carries `params_key_for_rounding` iff its source has the decorator
      keyword; no derived (time-unit / aggregation / grouping) node carries it; the real
      _add_rounding_to_functions wraps exactly the functions with the key, once, and passes the
      (base, direction, offset) of params[key]['rounding'][name] (recorded through a stub of
      _add_rounding_to_one_function); all other entries are left as they were.
  R4  missing spec is an error: for every absence pattern of params[key] / ['rounding'] /
      [name] / base / direction the real _add_rounding_to_functions raises KeyError.
  R5  the offset written in the YAML reaches the environment (the loader copies
      to_add_after_rounding) -- the part of "right spec by date" that C10 needs; the full
      statement is C07's.
  R6  (bounded, complement to A1) the real wrapper evaluated in floating point on grid points,
      half-way points and +-1 ulp agrees with the exact-rational spec within base*2^-40.
"""
from __future__ import annotations

import ast
import copy
import datetime
import functools
import inspect
import json
import math
import textwrap
from fractions import Fraction

import numpy
import yaml
import z3

from vt import env as venv
from vt import par, solve, symx
from vt.report import ASSUMPTIONS, Report


SYNTHETIC_TRIPLES = [(5, "nearest", 0), (0.25, "nearest", 0), (2, "up", 0), (25, "down", 0), (36, "nearest", 18), (0.05, "nearest", 0.01)]


def yaml_rounding_specs():
    """{(group, func, date): spec dict} from every parameter file"""
    out = {}
    for p in sorted((venv.SRC / "parameters").glob("*.yaml")):
        raw = yaml.load(p.read_text(encoding="utf-8"), Loader=yaml.CLoader)
        for fn, spec in (raw.get("rounding") or {}).items():
            for d, v in spec.items():
                if isinstance(d, datetime.date):
                    out[(p.stem, fn, d)] = v
    return out


def _wrapper_summary(base, direction, offset):
    """E1 on the real wrapper; the wrapped function is a stub returning symbolic x."""
    from _gettsim import interface

    def probe(x):
        return x

    w = interface._add_rounding_to_one_function(base=base, direction=direction, to_add_after_rounding=offset)(probe)
    node, filename, firstline, f = symx.func_ast(w, unwrap=False)
    if node.name != "wrapper":
        raise symx.Unsupported(f"unexpected wrapper name {node.name}")
    x = symx.Num.var("x", "float")
    clo = dict(zip(f.__code__.co_freevars, [c.cell_contents for c in f.__closure__]))
    stub = clo["func"]
    ex = symx.Executor(contracts={stub: lambda ex_, a, k, pc, n: x})
    fr = ex.call_function(w, {"*": (), "**": {}}, symx.TRUE, unwrap=False)
    return x.alts[0][1], fr, ex


def wrapper_obligations(rep):
    specs = yaml_rounding_specs()
    triples = {}
    for (g, fn, d), v in specs.items():
        t = (v.get("base"), v.get("direction"), v.get("to_add_after_rounding", 0))
        triples.setdefault(t, []).append(f"{g}.{fn}@{d}")
    # specifications a reform may put in force (GEP-5): bases that are not powers of ten, offsets with a base != 1
    for t in SYNTHETIC_TRIPLES:
        triples.setdefault(t, []).append("user specification (synthetic)")
    rep.extra["rounding_triples"] = [{"base": b, "direction": di, "offset": o, "n_uses": len(u), "e.g.": u[0]} for (b, di, o), u in triples.items()]
    where = "src/_gettsim/interface.py:660-717 (wrapper)"
    rep.functions.add("src/_gettsim/interface.py:686 _add_rounding_to_one_function.<locals>.inner.<locals>.wrapper")
    for (base, direction, offset), uses in sorted(triples.items(), key=str):
        tag = f"base={base},dir={direction},off={offset}"
        try:
            x, fr, ex = _wrapper_summary(base, direction, offset)
        except symx.Unsupported as e:
            rep.ob(f"R1[{tag}]", "unsupported", "z3", 0, where, "rounding", str(e))
            continue
        if not fr.returns:
            rep.ob(f"R1[{tag}] wrapper returns", "refuted", "z3", 0, where, "rounding", f"raises on every input: {fr.raises}")
            rep.violation(f"wrapper-raises:{tag}", f"rounding wrapper raises for spec {tag} ({uses[0]})", {"obligation": "R1", "spec": tag}, False)
            continue
        res = ex.result_of(fr)
        r = symx.real_term(res) if (isinstance(res, symx.Num) or symx.is_conc_num(res)) else None
        if r is None or any(not symx.is_false(c) for c, _, _ in fr.raises) or ex.obligations:
            live_raise = [c for c, _, _ in fr.raises if solve.check([c], 10).status != "unsat"]
            live_obl = [o for o in ex.obligations if solve.check([o.cond], 10).status != "unsat"]
            if r is None or live_raise or live_obl:
                rep.ob(f"R1[{tag}] no raise / defined", "refuted" if r is not None else "unsupported", "z3", 0, where, "rounding", f"{live_raise} {live_obl}")
                continue
        B = symx.frac_to_z3real(Fraction(repr(float(base))) if isinstance(base, float) else Fraction(base))
        O = symx.frac_to_z3real(Fraction(repr(float(offset))) if isinstance(offset, float) else Fraction(offset))
        y = r - O
        k = z3.Int("k")
        ongrid = z3.Exists([k], y == B * z3.ToReal(k))
        # the grid membership is proved through the explicit witness floor/ceil of x/base
        goals = {}
        if direction == "up":
            goals["direction"] = z3.And(y >= x, y < x + B)
        elif direction == "down":
            goals["direction"] = z3.And(y <= x, y > x - B)
        elif direction == "nearest":
            goals["direction"] = z3.And(y - x <= B / 2, x - y <= B / 2)
        else:
            rep.ob(f"R1[{tag}] direction known", "refuted", "exact", 0, where, "rounding", f"spec direction {direction!r} is not up/down/nearest yet the wrapper returns")
            continue
        goals["grid"] = z3.IsInt(y / B)
        kk = z3.Int("kk")
        goals["fixpoint"] = z3.Implies(x == B * z3.ToReal(kk), y == x)
        for gname, goal in goals.items():
            res_ = solve.check([z3.Not(goal)], 30)
            st = {"unsat": "discharged", "sat": "refuted"}.get(res_.status, "unknown")
            rep.ob(f"R1[{tag}] {gname}", st, res_.backend, res_.seconds, where, "rounding", f"used by {len(uses)} entries, e.g. {uses[0]}")
            if st == "refuted":
                xv = res_.model.eval(x, model_completion=True)
                xf = float(Fraction(xv.numerator_as_long(), xv.denominator_as_long())) if z3.is_rational_value(xv) else 0.0
                got = _run_real_wrapper(base, direction, offset, xf)
                exp = _spec_round(Fraction(repr(xf)), base, direction, offset)
                rep.violation(
                    f"wrapper:{tag}:{gname}",
                    f"rounding wrapper with {tag}: x={xf!r} gives {got!r}, statutory value {float(exp)!r}",
                    {"obligation": f"R1[{tag}] {gname}", "x": xf, "actual": got, "expected": float(exp), "base": base, "direction": direction, "offset": offset},
                    failing_input_found=abs(got - float(exp)) > abs(float(base)) * 2**-30,
                )
    # invalid specs must raise
    for bad in [(1, "sideways", 0), ("1", "up", 0), (1, "down", "x")]:
        tag = f"base={bad[0]!r},dir={bad[1]!r},off={bad[2]!r}"
        try:
            x, fr, ex = _wrapper_summary(*bad)
            ok = not fr.returns or all(solve.check([g], 10).status == "unsat" for g, _ in fr.returns)
            rep.ob(f"R1[{tag}] invalid spec raises", "discharged" if ok else "refuted", "z3", 0, where, "rounding")
            if not ok:
                rep.violation(f"wrapper-accepts-invalid:{tag}", f"wrapper returns normally for invalid spec {tag}", {"obligation": "R1 invalid spec", "spec": tag}, True)
        except symx.Unsupported as e:
            rep.ob(f"R1[{tag}] invalid spec raises", "unsupported", "z3", 0, where, "rounding", str(e))


def _spec_round(x: Fraction, base, direction, offset) -> Fraction:
    b = Fraction(repr(float(base))) if isinstance(base, float) else Fraction(base)
    o = Fraction(repr(float(offset))) if isinstance(offset, float) else Fraction(offset)
    q = x / b
    if direction == "up":
        k = math.ceil(q)
    elif direction == "down":
        k = math.floor(q)
    else:
        k = round(q)  # half to even
    return b * k + o


def _run_real_wrapper(base, direction, offset, xf):
    from _gettsim import interface

    w = interface._add_rounding_to_one_function(base=base, direction=direction, to_add_after_rounding=offset)(lambda: numpy.array([xf]))
    return float(w()[0])


# ------------------------------------------------------------------------------------
def pass_through_obligations(rep):
    """R2 via E1 with a recording contract for _add_rounding_to_functions."""
    from _gettsim import interface

    where = "src/_gettsim/interface.py:546-593"
    rep.functions.add("src/_gettsim/interface.py:546 _round_and_partial_parameters_to_functions")
    for rounding in (False, True):
        calls = []
        funcs = {"f": (lambda a, b_params: a)}
        params = {"b": {"k": 1}}

        def rec(ex_, a, k, pc, n, calls=calls):
            calls.append((a, k))
            return a[0] if a else k.get("functions")

        try:
            ex = symx.Executor(contracts={interface._add_rounding_to_functions: rec, functools.partial: lambda ex_, a, k, pc, n: ("partial", a[0], k)},
                               inline_pred=lambda fn: fn is interface._round_and_partial_parameters_to_functions)
            # the loop that partials parameters is plain Python over a concrete dict: executed by E1 as is
            fr = ex.call_function(interface._round_and_partial_parameters_to_functions, {"functions": funcs, "params": params, "rounding": rounding}, symx.TRUE)
            res = ex.result_of(fr)
            if rounding:
                ok = len(calls) == 1 and calls[0][0][0] is funcs and calls[0][0][1] is params
            else:
                ok = len(calls) == 0
            ok = ok and isinstance(res, dict) and set(res) == {"f"}
            rep.ob(f"R2: rounding={rounding} -> _add_rounding_to_functions called {'once on (functions, params)' if rounding else 'never'}", "discharged" if ok else "refuted", "E1", 0, where, "path")
            if not ok:
                rep.violation(f"pass-through:rounding={rounding}", f"_round_and_partial_parameters_to_functions with rounding={rounding}: rounding step called {len(calls)} times", {"obligation": "R2", "rounding": rounding, "calls": len(calls)}, True)
        except (symx.Unsupported, symx.PathAbort) as e:
            rep.ob(f"R2: rounding={rounding}", "unsupported", "E1", 0, where, "path", str(e))


# ------------------------------------------------------------------------------------
def _decorator_keys():
    """{(module file, function name): key} read from the AST of every rule module"""
    out = {}
    for p in sorted(venv.SRC.rglob("*.py")):
        try:
            tree = ast.parse(p.read_text(encoding="utf-8"))
        except SyntaxError:
            continue
        for node in ast.walk(tree):
            if isinstance(node, ast.FunctionDef):
                for d in node.decorator_list:
                    if isinstance(d, ast.Call) and getattr(d.func, "id", None) == "policy_info":
                        for kw in d.keywords:
                            if kw.arg == "params_key_for_rounding" and isinstance(kw.value, ast.Constant) and kw.value.value is not None:
                                out[(str(p), node.name)] = kw.value.value
    return out


def _on_grid(e, allf, name, f, spec):
    """z3: under 'every marked parent lies on its own grid', the strongest postcondition of the rule
    implies (result - offset) / base is an integer. -> (status, detail, witness inputs | None)"""
    from vt import rules

    base = Fraction(repr(float(spec["base"])))
    off = Fraction(repr(float(spec.get("to_add_after_rounding", 0))))
    ok, why = rules.is_scalar_rule(f)
    if not ok:
        return "unsupported", f"not a scalar rule: {why}", None
    try:
        sm = symx.summarise(f, conc_args=e.conc_params_for(f), range_bound=rules.RANGE_BOUND)
        assum = []
        grids = []  # (parent term, integer variable, base, offset)
        for a, (term, ty) in sm.args.items():
            pf = allf.get(a)
            pinfo = (getattr(pf, "__info__", None) or {}) if pf is not None else {}
            kp = pinfo.get("params_key_for_rounding")
            sp = e.params.get(kp, {}).get("rounding", {}).get(a) if kp else None
            if isinstance(sp, dict) and "base" in sp and ty == "float":
                kv = z3.Int(f"k!{a}")
                pb, po = Fraction(repr(float(sp["base"]))), Fraction(repr(float(sp.get("to_add_after_rounding", 0))))
                assum.append(term == symx.frac_to_z3real(pb) * z3.ToReal(kv) + symx.frac_to_z3real(po))
                grids.append((term, kv, pb, po))
        alts = symx.to_num(sm.result).alts
    except (symx.Unsupported, symx.PathAbort, symx.InfiniteValue) as ex:
        return "unsupported", f"E1: {ex!r}"[:200], None
    # per return alternative: a constant on the grid, or equal to a rounded parent whose grid is a
    # sub-grid of the required one (linear real arithmetic only; no integrality reasoning needed)
    def leaves(g0, t0):
        if not isinstance(t0, float) and z3.is_app_of(t0, z3.Z3_OP_ITE):
            c, x, y = t0.children()
            yield from leaves(z3.And(g0, c), x)
            yield from leaves(z3.And(g0, z3.Not(c)), y)
        else:
            yield g0, t0

    for g_, t, ty in [(gg, tt, ty0) for g0, t0, ty0 in alts for gg, tt in leaves(g0, t0 if isinstance(t0, float) else z3.simplify(t0))]:
        if isinstance(t, float):
            if solve.check([*assum, g_], 10).status == "unsat":
                continue
            return "refuted", f"infinite value returned on a feasible path", None
        t = z3.ToReal(t) if z3.is_int(t) else t
        if solve.check([*assum, g_], 10).status == "unsat":
            continue
        ts = z3.simplify(t)
        if z3.is_rational_value(ts):
            v = Fraction(ts.numerator_as_long(), ts.denominator_as_long())
            if ((v - off) / base).denominator == 1:
                continue
            return "refuted", f"returns the constant {float(v)!r}, off the grid of base {spec['base']} ({spec.get('direction')})", rules.model_inputs(solve.check([*assum, g_], 10).model, sm)
        accepted = False
        for term, kv, pb, po in grids:
            if (pb / base).denominator == 1 and ((po - off) / base).denominator == 1:
                if solve.check([*assum, g_, t != term], 10).status == "unsat":
                    accepted = True
                    break
        if accepted:
            continue
        q = (t - symx.frac_to_z3real(off)) / symx.frac_to_z3real(base)
        res = solve.check([*assum, g_, q != z3.ToReal(z3.ToInt(q))], 20)
        if res.status == "unsat":
            continue
        if res.status == "sat":
            return "refuted", f"value off the grid of base {spec['base']} ({spec.get('direction')})", rules.model_inputs(res.model, sm)
        return "unknown", f"return alternative {str(ts)[:80]}: {res.reason}", None
    return "discharged", f"every feasible return alternative lies on the grid of base {spec['base']} ({len(grids)} rounded parents)", None


def _grid_worker(job):
    """R7 for unmarked rules whose value depends on parameters: every date class (the parameters,
    not only the function set, decide whether the value lies on the grid)"""
    from vt import rules

    dates, names = job
    out = {"items": {}, "n": 0}
    seen = set()
    for d in dates:
        e = venv.Env(d)
        fs = e.functions
        fps = None
        for n in names:
            f = fs.get(n)
            if f is None or "params_key_for_rounding" in (getattr(f, "__info__", None) or {}):
                continue
            for g, grp in e.params.items():
                spec = grp.get("rounding", {}).get(n) if isinstance(grp, dict) and isinstance(grp.get("rounding"), dict) else None
                if not isinstance(spec, dict) or "base" not in spec:
                    continue
                fps = fps or rules.group_fps(e)
                f0 = inspect.unwrap(f)
                k = ("law-rounds*", n, f0.__qualname__, g, json.dumps(spec, sort_keys=True, default=str), tuple(fps.get(a[:-7]) for a in inspect.signature(f0).parameters if a.endswith("_params")))
                if k in seen:
                    continue
                seen.add(k)
                out["n"] += 1
                fno, fo = e.universe()
                st, detail, witness = _on_grid(e, {**fno, **fo}, n, f, spec)
                out["items"][str(k)] = {"name": f"R7:{n} ({f0.__qualname__}) is rounded by {g}.rounding but not marked: values lie on the grid anyway", "status": st, "detail": detail, "date": str(d), "witness": witness}
    return out


def _once_worker(dates):
    from _gettsim import interface

    deco = _decorator_keys()
    out = {"items": {}, "n": 0}
    seen = set()
    for d in dates:
        e = venv.Env(d)
        fno, fo = e.universe()
        allf = {**fno, **fo}
        # (a) key present iff decorated
        for name, f in allf.items():
            info = getattr(f, "__info__", None) or {}
            cls = venv.classify_node(name, f)
            has = "params_key_for_rounding" in info
            f0 = inspect.unwrap(f)
            k = ("key", name, f0.__qualname__, cls)
            if k in seen:
                continue
            seen.add(k)
            out["n"] += 1
            if cls in ("time_conversion", "aggregate_by_group", "aggregate_by_p_id", "grouping"):
                st = "refuted" if has else "discharged"
                detail = f"derived node {name} ({cls}) carries a rounding key" if has else ""
            else:
                try:
                    fn_file = inspect.getsourcefile(f0)
                except TypeError:
                    fn_file = "?"
                want = deco.get((fn_file, f0.__name__))
                st = "discharged" if (info.get("params_key_for_rounding") == want) else "refuted"
                detail = "" if st == "discharged" else f"{name}: __info__ key {info.get('params_key_for_rounding')!r} vs decorator {want!r}"
            out["items"][str(k)] = {"name": f"R3a:{name}", "status": st, "detail": detail, "date": str(d)}
        # (c) R7: every column the law rounds at this date (a `rounding:` entry in force for the name of an
        # active rule) is produced by a rule marked for that group -- or the unmarked rule provably
        # returns values that already lie on that grid (E1 + z3: e.g. `x_rounded if flag else 0.0`)
        for g, grp in e.params.items():
            if not isinstance(grp, dict) or not isinstance(grp.get("rounding"), dict):
                continue
            for n, spec in grp["rounding"].items():
                f = allf.get(n)
                if f is None or not isinstance(spec, dict) or "base" not in spec:
                    continue
                info = getattr(f, "__info__", None) or {}
                if info.get("params_key_for_rounding") == g:
                    continue
                f0 = inspect.unwrap(f)
                k = ("law-rounds", n, f0.__qualname__, g, json.dumps(spec, sort_keys=True, default=str))
                if k in seen:
                    continue
                seen.add(k)
                out["n"] += 1
                st, detail, witness = _on_grid(e, allf, n, f, spec)
                out["items"][str(k)] = {"name": f"R7:{n} ({f0.__qualname__}) is rounded by {g}.rounding but not marked: values lie on the grid anyway", "status": st, "detail": detail, "date": str(d), "witness": witness}
                if any(a.endswith("_params") for a in inspect.signature(f0).parameters):
                    out.setdefault("param_dependent", set()).add(n)
        # (b) the real _add_rounding_to_functions with a recording stub for the decorator factory
        rec = []
        saved = interface._add_rounding_to_one_function

        def stub(base, direction, to_add_after_rounding, rec=rec):
            def inner(func):
                marker = functools.partial(func)
                marker._verif_spec = (base, direction, to_add_after_rounding)
                marker._verif_inner = func
                rec.append(marker)
                return marker

            return inner

        rounded = {n: f for n, f in fno.items() if "params_key_for_rounding" in (getattr(f, "__info__", None) or {})}
        sig = ("wrap", tuple(sorted(rounded)), tuple(sorted((n, json.dumps(e.params.get(f.__info__["params_key_for_rounding"], {}).get("rounding", {}).get(n), default=str)) for n, f in rounded.items())))
        if sig in seen:
            continue
        seen.add(sig)
        def has_spec(n, f):
            sp = e.params.get(f.__info__["params_key_for_rounding"], {}).get("rounding", {}).get(n)
            return isinstance(sp, dict) and "base" in sp and "direction" in sp

        without = sorted(n for n, f in rounded.items() if not has_spec(n, f))
        out["n"] += 1
        key = str(("wrap", str(d)))
        if without:
            # a rule with key but without spec at this date: must be an error. Whether such a rule is
            # reachable from the default targets is C08's obligation. The wiring of all other rules
            # is then checked on the universe without those rules.
            try:
                interface._add_rounding_to_one_function = stub
                try:
                    interface._add_rounding_to_functions(fno, e.params)
                    err = None
                except KeyError as ex:
                    err = ex
            finally:
                interface._add_rounding_to_one_function = saved
            out["items"][key + "/missing"] = {"name": f"R3b:rule without spec is an error@{d}", "status": "discharged" if err is not None else "refuted",
                                              "detail": f"marked rules without a specification at this date: {without[:4]}; " + (f"KeyError raised: {str(err)[:80]}" if err is not None else "returned normally"), "date": str(d)}
            out["n"] += 1
            fno = {n: f for n, f in fno.items() if n not in without}
            rounded = {n: f for n, f in rounded.items() if n not in without}
            del rec[:]
        try:
            interface._add_rounding_to_one_function = stub
            try:
                new = interface._add_rounding_to_functions(fno, e.params)
                err = None
            except KeyError as ex:
                new, err = None, ex
        finally:
            interface._add_rounding_to_one_function = saved
        if err is not None:
            out["items"][key] = {"name": f"R3b:wrapping@{d}", "status": "refuted", "detail": f"KeyError although every marked rule has a specification: {str(err)[:120]}", "date": str(d)}
            continue
        bad = []
        for n, f in fno.items():
            g = new[n]
            if n in rounded:
                spec = e.params[f.__info__["params_key_for_rounding"]]["rounding"][n]
                want = (spec["base"], spec["direction"], spec.get("to_add_after_rounding", 0))
                if not hasattr(g, "_verif_spec"):
                    bad.append(f"{n}: has a rounding key but was not wrapped")
                elif g._verif_spec != want:
                    bad.append(f"{n}: wrapped with {g._verif_spec}, spec in force is {want}")
                elif hasattr(g._verif_inner, "_verif_spec"):
                    bad.append(f"{n}: wrapped twice")
                elif g._verif_inner is not f:
                    bad.append(f"{n}: wrapper does not wrap the rule itself")
            elif hasattr(g, "_verif_spec"):
                bad.append(f"{n}: wrapped although it carries no rounding key")
            elif g is not f and inspect.unwrap(g) is not inspect.unwrap(f):
                bad.append(f"{n}: replaced by a different object")
        if set(new) != set(fno):
            bad.append("set of function names changed")
        if len(rec) != len(rounded):
            bad.append(f"{len(rec)} wrappers created for {len(rounded)} rounded rules")
        out["items"][key] = {"name": f"R3b:wrapping@{d}", "status": "refuted" if bad else "discharged", "detail": "; ".join(bad[:5]), "date": str(d), "n_rounded": len(rounded)}
    return out


def missing_spec_obligations(rep):
    """R4: absence patterns on the real function (exhaustive over the 5 levels)."""
    from _gettsim import interface

    where = "src/_gettsim/interface.py:596-657"
    rep.functions.add("src/_gettsim/interface.py:596 _add_rounding_to_functions")

    def rule(x):
        return x

    rule.__info__ = {"params_key_for_rounding": "grp", "skip_vectorization": False}
    full = {"grp": {"rounding": {"rule": {"base": 1, "direction": "up"}}}}
    patterns = {
        "params[key] absent": {},
        "['rounding'] absent": {"grp": {}},
        "[name] absent": {"grp": {"rounding": {}}},
        "base absent": {"grp": {"rounding": {"rule": {"direction": "up"}}}},
        "direction absent": {"grp": {"rounding": {"rule": {"base": 1}}}},
        "both absent": {"grp": {"rounding": {"rule": {}}}},
    }
    for name, p in patterns.items():
        try:
            interface._add_rounding_to_functions({"rule": rule}, p)
            st, detail = "refuted", "returned normally"
        except KeyError:
            st, detail = "discharged", "KeyError"
        except Exception as ex:  # noqa: BLE001
            st, detail = "refuted", f"raised {type(ex).__name__} instead of KeyError"
        rep.ob(f"R4: {name} -> KeyError", st, "exhaustive-run", 0, where, "exception-post", detail)
        if st == "refuted":
            rep.violation(f"missing-spec:{name}", f"_add_rounding_to_functions with {name}: {detail}", {"obligation": f"R4 {name}", "params": p}, True)
    try:
        out = interface._add_rounding_to_functions({"rule": rule}, full)
        ok = out["rule"] is not rule and out["rule"](2.5) == 3.0
    except Exception:  # noqa: BLE001
        ok = False
    rep.ob("R4: complete spec -> wrapped (non-vacuity)", "discharged" if ok else "refuted", "exhaustive-run", 0, where, "exception-post")


def own_spec_obligations(rep):
    """R3c: contract of the real _add_rounding_to_functions on synthetic universes: every marked rule is
    wrapped with exactly ITS OWN (base, direction, offset or 0), whatever other rules are processed
    before it -- all orders of three marked rules x all presence patterns of the optional offset, two
    parameter groups, one unmarked rule; the caller's dictionaries are left unchanged."""
    import itertools

    from _gettsim import interface

    where = "src/_gettsim/interface.py:596-657"
    saved = interface._add_rounding_to_one_function
    n = 0
    bad = []
    names = ["a", "b", "c"]
    groups = {"a": "g1", "b": "g2", "c": "g1"}
    bases = {"a": 1, "b": 0.01, "c": 100}
    dirs = {"a": "up", "b": "nearest", "c": "down"}
    for order in itertools.permutations([*names, "plain"]):
        for present in itertools.product((False, True), repeat=3):
            fs = {}
            for nm in order:
                def rule(x):
                    return x

                rule.__name__ = nm
                if nm != "plain":
                    rule.__info__ = {"params_key_for_rounding": groups[nm]}
                fs[nm] = rule
            params = {"g1": {"rounding": {}}, "g2": {"rounding": {}}}
            for nm, pr in zip(names, present):
                sp = {"base": bases[nm], "direction": dirs[nm]}
                if pr:
                    sp["to_add_after_rounding"] = {"a": 18, "b": 0.5, "c": 7}[nm]
                params[groups[nm]]["rounding"][nm] = sp
            before = copy.deepcopy(params)
            rec = {}

            def stub(base, direction, to_add_after_rounding, rec=rec):
                def inner(func):
                    rec[func.__name__] = (base, direction, to_add_after_rounding)
                    return func

                return inner

            try:
                interface._add_rounding_to_one_function = stub
                interface._add_rounding_to_functions(fs, params)
            except Exception as ex:  # noqa: BLE001
                bad.append(f"order {order}, offsets {present}: raised {ex!r}")
                continue
            finally:
                interface._add_rounding_to_one_function = saved
            n += 1
            want = {nm: (bases[nm], dirs[nm], before[groups[nm]]["rounding"][nm].get("to_add_after_rounding", 0)) for nm in names}
            if rec != want:
                bad.append(f"order {order}, offsets present {dict(zip(names, present))}: wrapped with {rec}, own specs are {want}")
            if params != before:
                bad.append(f"order {order}, offsets {present}: the parameter dictionary was modified: {params} != {before}")
    rep.ob(f"R3c: every marked rule is wrapped with its own (base, direction, offset or 0) in all {n} (order, offset-presence) universes; params unchanged", "refuted" if bad else "discharged", "exhaustive-run", 0, where, "wiring", "; ".join(bad[:2]))
    for b in bad[:2]:
        rep.violation(f"own-spec:{b[:60]}", b, {"obligation": "R3c", "what": b}, True)


def offset_reaches_environment(rep):
    """R5: every yaml rounding entry is reproduced by the real loader on its own start date."""
    from _gettsim.policy_environment import _load_rounding_parameters

    where = "src/_gettsim/policy_environment.py:421-462"
    rep.functions.add("src/_gettsim/policy_environment.py:421 _load_rounding_parameters")
    raws = {}
    n = 0
    for p in sorted((venv.SRC / "parameters").glob("*.yaml")):
        raw = yaml.load(p.read_text(encoding="utf-8"), Loader=yaml.CLoader)
        if "rounding" in raw:
            raws[p.stem] = raw["rounding"]
    bad = []
    one = datetime.timedelta(days=1)
    for g, rs in raws.items():
        for fn, spec in rs.items():
            keys = sorted(d for d in spec if isinstance(d, datetime.date))
            # one representative per class of the comparison `key <= date`: every entry date, the
            # day before it, a day long before the first and long after the last entry
            probes = sorted({*keys, *[k - one for k in keys], keys[0] - 400 * one, keys[-1] + 4000 * one})
            for d in probes:
                n += 1
                got = _load_rounding_parameters(d, {fn: spec}).get(fn)
                past = [k for k in keys if k <= d]
                if past:
                    v = spec[max(past)]
                    want = {k: v[k] for k in ("base", "direction", "to_add_after_rounding") if k in v}
                else:
                    want = None  # no entry in force: the function must not appear (-> KeyError later)
                if got != want:
                    bad.append((g, fn, d, got, want))
    rep.ob(f"R5: loader returns the entry in force (or none) for each of the {n} (function, date class) pairs of the yaml rounding sections", "refuted" if bad else "discharged", "exhaustive-run", 0, where, "loader")
    # R5b: the same through the group loader (which decides for WHICH day the rounding block is resolved):
    # on the day an entry starts, the day before and 100 days later
    from _gettsim.policy_environment import _load_parameter_group_from_yaml

    n2 = 0
    bad2 = []
    for g, rs in raws.items():
        days = set()
        for fn, spec in rs.items():
            for k in spec:
                if isinstance(k, datetime.date) and k.year >= 1980:
                    days |= {k, k - one, k + 100 * one}
        for d in sorted(days):
            try:
                grp = _load_parameter_group_from_yaml(d, g)
            except Exception as ex:  # noqa: BLE001
                bad2.append((g, "*", d, repr(ex)[:80], None))
                continue
            for fn, spec in rs.items():
                keys = sorted(k for k in spec if isinstance(k, datetime.date))
                past = [k for k in keys if k <= d]
                want = {k: spec[max(past)][k] for k in ("base", "direction", "to_add_after_rounding") if k in spec[max(past)]} if past else None
                got = (grp.get("rounding") or {}).get(fn)
                n2 += 1
                if got != want:
                    bad2.append((g, fn, d, got, want))
    rep.ob(f"R5b: the environment of a day holds the rounding entry in force THAT day ({n2} (function, day) pairs through _load_parameter_group_from_yaml)", "refuted" if bad2 else "discharged", "exhaustive-run", 0, "src/_gettsim/policy_environment.py:259 _load_parameter_group_from_yaml", "loader")
    for g, fn, d, got, want in bad2[:5]:
        rep.violation(f"rounding-spec-by-day:{g}.{fn}@{d}", f"environment of {d} has rounding spec {got} for {fn}, the parameter file says {want}", {"obligation": "R5b", "group": g, "function": fn, "date": str(d), "loaded": got, "yaml": want, "replay": f"set_up_policy_environment('{d}')[0]['{g}']['rounding']['{fn}']"}, True)
    for g, fn, d, got, want in bad[:5]:
        rep.violation(f"rounding-spec-lost:{g}.{fn}@{d}", f"environment of {d} has rounding spec {got} for {fn}, the parameter file says {want}", {"obligation": "R5", "group": g, "function": fn, "date": str(d), "loaded": got, "yaml": want, "replay": f"set_up_policy_environment('{d}')[0]['{g}']['rounding']['{fn}']"}, True)


def float_grid(rep, seed):
    """R6 bounded complement to A1."""
    specs = yaml_rounding_specs()
    triples = {(v.get("base"), v.get("direction"), v.get("to_add_after_rounding", 0)) for v in specs.values()} | set(SYNTHETIC_TRIPLES)
    n = 0
    distinct = set()
    bad = []
    for base, direction, offset in sorted(triples, key=str):
        if direction not in ("up", "down", "nearest"):
            continue
        for kq in (0, 1, 2, 7, 1234, 99999):
            g = float(base) * kq
            pts = {g, float(base) * (kq + 0.5), numpy.nextafter(g, numpy.inf), numpy.nextafter(g, -numpy.inf), g + float(base) / 3}
            for xf in pts:
                xf = float(xf)
                got = _run_real_wrapper(base, direction, offset, xf)
                exp = float(_spec_round(Fraction(repr(xf)), base, direction, offset))
                n += 1
                distinct.add((base, direction, offset, kq, round((xf - g) / float(base), 3)))
                # a value within 1 ulp of a grid point may legitimately land on either neighbour
                tol = max(abs(float(base)), abs(xf)) * 2**-40
                near_grid = abs(xf - g) <= 4 * abs(numpy.spacing(g)) + 1e-300 and xf != g
                if abs(got - exp) > tol and not (near_grid and abs(got - exp) <= abs(float(base)) + tol):
                    bad.append(f"{base},{direction},{offset}: x={xf!r} -> {got!r}, exact {exp!r}")
    rep.bounded["float_grid"] = {"evaluations": n, "distinct_nontrivial": len(distinct), "rule": "every rounding triple of the parameter files x grid points k*base (k in 0,1,2,7,1234,99999), half-way points, +-1 ulp, base/3 offset; compared with exact rationals at max(|x|,base)*2^-40", "failures": bad[:10]}
    for i, b in enumerate(bad[:3]):
        rep.violation(f"float-grid:{i}", b, {"what": b, "kind": "bounded"}, True)


def run(tier="quick", seed=0, jobs=16):
    rep = Report("C10", tier, seed, "proof")
    rep.assumptions = [ASSUMPTIONS["A1"], ASSUMPTIONS["A4"], "numpy.ceil/floor/ndarray.round are the mathematical ceiling, floor and round-half-even (trusted contract)",
                       "R3/R4/R5 are exhaustive executions of the real functions over finite spaces (all function-set classes; all absence patterns; all yaml entries), not symbolic proofs"]
    rep.trusted = ["numpy.ceil, numpy.floor, ndarray.round (contract above)", "copy.deepcopy, functools.wraps/partial", "z3 5.1.0 / cvc5 1.4.0", "E1 encoder"]
    wrapper_obligations(rep)
    pass_through_obligations(rep)
    missing_spec_obligations(rep)
    own_spec_obligations(rep)
    offset_reaches_environment(rep)
    dates = venv.function_set_classes() if tier == "quick" else [c[0] for c in venv.date_classes()]
    if tier == "quick":
        # add every date at which a rounding entry starts (the spec passed to the wrapper changes)
        dates = sorted(set(dates) | {d for (_, _, d) in yaml_rounding_specs() if d.year >= 1980})
    results = par.pmap(_once_worker, par.chunks(dates, jobs), jobs)
    items = {}
    for st, job, res in results:
        if st != "ok":
            raise RuntimeError(res)
        for k, v in res["items"].items():
            items.setdefault(k, v)
    pdep = set()
    for st, job, res in results:
        pdep |= res.get("param_dependent", set())
    if pdep:
        allc = [c[0] for c in venv.date_classes()]
        for st, job, res in par.pmap(_grid_worker, [(ch, sorted(pdep)) for ch in par.chunks(allc, jobs)], jobs):
            if st != "ok":
                raise RuntimeError(res)
            for k, v in res["items"].items():
                items.setdefault(k, v)
    rep.extra["R7_param_dependent_unmarked_rules"] = sorted(pdep)
    nb = 0
    for k, it in sorted(items.items()):
        if it["status"] == "discharged":
            nb += 1
            continue
        if it["name"].startswith("R7:"):
            rep.ob(it["name"], it["status"], "z3", 0, "parameters/*.yaml rounding sections x active rules", "grid", it["detail"])
            if it["status"] == "refuted":
                nm = it["name"][3:].split(" ")[0]
                rp = {"obligation": it["name"], "date": it["date"], "rule": nm, "inputs": it.get("witness"), "replay": "unmarked_rule"}
                bad, val = _replay_unmarked(rp)
                rep.violation(f"R7:{nm}", f"{nm} at {it['date']}: the parameter file rounds this column, the active rule is not marked for rounding and returns {val} for {it.get('witness')}", rp, bad)
            continue
        rep.ob(it["name"], it["status"], "exhaustive-run", 0, "src/_gettsim/interface.py:596-657", "wiring", it["detail"])
        rep.violation(it["name"], it["detail"], {"obligation": it["name"], "date": it["date"], "detail": it["detail"]}, True)
    rep.add_counts(nb, "exhaustive-run", 0.0, "R3 once-only wiring")
    float_grid(rep, seed)
    rep.samples = rep.obligations[:4] + list(items.values())[:2]
    return rep.finish({"date_classes": len(dates), "rounding_entries_in_yaml": len(yaml_rounding_specs())})


def _replay_unmarked(rp):
    """call the real (unwrapped) rule of that date on the witness and test the grid in CPython"""
    e = venv.Env(datetime.date.fromisoformat(rp["date"]))
    fno, fo = e.universe()
    f = {**fno, **fo}[rp["rule"]]
    g = (getattr(f, "__info__", None) or {}).get("params_key_for_rounding")
    spec = None
    for grp in e.params.values():
        if isinstance(grp, dict) and isinstance(grp.get("rounding"), dict) and rp["rule"] in grp["rounding"]:
            spec = grp["rounding"][rp["rule"]]
    if spec is None or rp.get("inputs") is None:
        return False, None
    val = float(inspect.unwrap(f)(**rp["inputs"], **e.conc_params_for(f)))
    q = (val - spec.get("to_add_after_rounding", 0)) / spec["base"]
    return (g is None and abs(q - round(q)) > 1e-6), val


def replay(path):
    rp = json.loads(open(path).read())
    if rp.get("replay") == "unmarked_rule":
        bad, val = _replay_unmarked(rp)
        print(json.dumps({"violates": bool(bad), "value": val}))
        return 1 if bad else 0
    if {"x", "base", "direction", "offset"} <= set(rp):
        got = _run_real_wrapper(rp["base"], rp["direction"], rp["offset"], rp["x"])
        exp = float(_spec_round(Fraction(repr(rp["x"])), rp["base"], rp["direction"], rp["offset"]))
        print(json.dumps({"x": rp["x"], "actual": got, "expected": exp}))
        return 1 if abs(got - exp) > abs(float(rp["base"])) * 2**-30 else 0
    print(json.dumps(rp, indent=1))
    return 0
