"""Back ends: z3 (python API) first, cvc5 (python API, SMT-LIB text) on `unknown`.

check(assertions) -> Result(status in {'unsat','sat','unknown'}, model, backend, seconds)
An obligation is a formula that must be UNSAT (precondition AND violation condition).
"""
from __future__ import annotations

import time

import z3

STATS = {"z3": 0, "cvc5": 0, "z3_s": 0.0, "cvc5_s": 0.0, "unknown": 0}


class Result:
    __slots__ = ("status", "model", "backend", "seconds", "reason")

    def __init__(self, status, model=None, backend="z3", seconds=0.0, reason=""):
        self.status = status
        self.model = model
        self.backend = backend
        self.seconds = seconds
        self.reason = reason

    def __repr__(self):
        return f"Result({self.status}, {self.backend}, {self.seconds:.3f}s)"


def model_to_dict(m):
    out = {}
    for d in m.decls():
        v = m[d]
        try:
            if z3.is_int_value(v):
                out[d.name()] = v.as_long()
            elif z3.is_rational_value(v):
                out[d.name()] = f"{v.numerator_as_long()}/{v.denominator_as_long()}" if v.denominator_as_long() != 1 else v.numerator_as_long()
            elif z3.is_true(v) or z3.is_false(v):
                out[d.name()] = bool(z3.is_true(v))
            elif z3.is_algebraic_value(v):
                out[d.name()] = str(v.approx(12))
            else:
                out[d.name()] = str(v)
        except Exception:  # noqa: BLE001
            out[d.name()] = str(v)
    return out


def check(assertions, timeout_s=20, use_cvc5=True, want_model=True) -> Result:
    if not isinstance(assertions, (list, tuple)):
        assertions = [assertions]
    t0 = time.time()
    s = z3.Solver()
    s.set("timeout", int(timeout_s * 1000))
    for a in assertions:
        s.add(a)
    r = s.check()
    dt = time.time() - t0
    STATS["z3"] += 1
    STATS["z3_s"] += dt
    if r == z3.unsat:
        return Result("unsat", None, "z3", dt)
    if r == z3.sat:
        m = s.model()
        return Result("sat", m if want_model else None, "z3", dt)
    reason = s.reason_unknown()
    if use_cvc5:
        r2 = _cvc5_check(s.to_smt2(), timeout_s)
        if r2 is not None:
            STATS["cvc5"] += 1
            STATS["cvc5_s"] += r2.seconds
            if r2.status != "unknown":
                return r2
    STATS["unknown"] += 1
    return Result("unknown", None, "z3+cvc5" if use_cvc5 else "z3", time.time() - t0, reason)


def _cvc5_check(smt2_text, timeout_s):
    try:
        import cvc5
    except ImportError:
        return None
    t0 = time.time()
    try:
        tm = cvc5.TermManager() if hasattr(cvc5, "TermManager") else None
        slv = cvc5.Solver(tm) if tm is not None else cvc5.Solver()
        slv.setOption("tlimit-per", str(int(timeout_s * 1000)))
        slv.setOption("produce-models", "true")
        slv.setLogic("ALL")
        parser = cvc5.InputParser(slv)
        text = "\n".join(l for l in smt2_text.splitlines() if not l.startswith("(check-sat") and not l.startswith("(set-logic") and not l.startswith("(set-info"))
        parser.setStringInput(cvc5.InputLanguage.SMT_LIB_2_6, text, "vc")
        sm = parser.getSymbolManager()
        while True:
            cmd = parser.nextCommand()
            if cmd.isNull():
                break
            cmd.invoke(slv, sm)
        r = slv.checkSat()
        dt = time.time() - t0
        if r.isUnsat():
            return Result("unsat", None, "cvc5", dt)
        if r.isSat():
            return Result("sat", None, "cvc5", dt)
        return Result("unknown", None, "cvc5", dt, "cvc5 unknown")
    except Exception as ex:  # noqa: BLE001
        return Result("unknown", None, "cvc5", time.time() - t0, f"cvc5 error: {ex}")


def prove(hyps, goal, timeout_s=20) -> Result:
    """unsat of hyps AND NOT goal"""
    return check([*hyps, z3.Not(goal)], timeout_s)
