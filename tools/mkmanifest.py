#!/usr/bin/env python3
"""Regenerate MANIFEST.json from the table below (kept next to the code so that the claims and the
checks change together). Run: python3 tools/mkmanifest.py"""
import json
import os

HERE = os.path.dirname(os.path.dirname(os.path.abspath(__file__)))
props = [json.loads(l) for l in open(os.path.join(HERE, "properties.jsonl"))]

E1 = "E1 symx"
CLAIMS = {
    "C20": dict(
        engine="E2 loopvc",
        level="fault_enumeration",
        technique="fault enumeration on the real API (every fault class of the statement at every eligible row/column of the base populations, plus sampled pairs; lossless dtype variants) + E2 proof of sn_id_numpy incl. its exceptional postcondition + adversarial-magnitude enumeration of convert_series_to_internal_type",
        text="Every injected fault must raise; every lossless dtype variant must leave all default targets unchanged and warn; float->int conversion must raise for any fractional value at magnitudes up to 2^52. sn_id_numpy's 'raises iff spouses disagree' is proved for unbounded N (37 VCs).",
        note="messages are not contracted (pandas 3); fault classes are those named in the statement; populations from the seeded family",
        ref="7 C20",
    ),
    "C03": dict(
        engine=E1,
        level="proof",
        technique="contract-based deductive verification: AST->z3 symbolic execution of every scalar rule per date class (self-generated VCs discharged by z3/cvc5); per-path return-type obligations; structural contract on _vectorize_func",
        text="For every scalar rule active in any date class 1980..2032 (all 197 classes, concrete parameters of the class, symbolic data) every feasible return path yields a Python type that converts losslessly to the declared dtype, and _vectorize_func passes that dtype as otypes; discharged by z3 for all inputs in VALID. Refutations are replayed on the real _vectorize_func(rule) with a two-row table.",
        note="A1, A2, A4; trusted: numpy.vectorize contract (elementwise, dtype = otypes), z3/cvc5, the E1 encoder (cross-checked against CPython on seeded inputs each run); arguments that are computed columns are constrained by type only",
        ref="7 C03",
    ),
    "C01": dict(
        engine=E1,
        level="exploration",
        technique="contract-based: order-free kernel postconditions (C11/C12) and dtype independence (C03) proved elsewhere; here: E1/z3 obligation that scalar rules use person pointers only through their sign, classification of every DAG node; the API-level statement is a bounded relational contract simulate(perm(data)) = perm(simulate(data))",
        text="Bounded: all ~320 nodes compared for ALL row permutations of populations up to 4 rows and seeded permutations beyond, random index labels, float-typed int columns, debug on/off (derived ids as partitions). Proved pieces: sign-only use of pointers in scalar rules (z3), injectivity lemmas; kernels by their order-free contracts. Not counted as proof of the whole API: interface.py glue is positional pandas code.",
        note="floats compared at 1e-12 relative (order of a floating-point group sum is not part of the contract, A1); numpy.vectorize / dags contracts trusted; populations from the seeded family of DESIGN 7.0",
        ref="7 C01",
    ),
    "C02": dict(
        engine=E1,
        level="exploration",
        technique="contract-based: kernel contracts mention ids only under = and >= 0 (C11/C12), scalar rules use pointers sign-only (E1/z3 here), id-injectivity lemmas; the API-level statement is a bounded relational contract simulate(A ++ B)|A = simulate(A) and relabelling equivariance",
        text="Bounded: random pairs of household sets with disjoint ids in three layouts (B first, A first, interleaved) and three relabellings (reversal, a person mapped to 0, gaps), all nodes compared; plus the proved sign-only / injectivity obligations.",
        note="as C01",
        ref="7 C02",
    ),
    "C04": dict(
        engine="E3 frame",
        level="exploration",
        technique="purity of all node functions by frame contracts (E3) + dags contract gives 'value is a function of the ancestors'; the binding of functions to names under different target sets / extra data columns is a bounded relational contract on the real API",
        text="Bounded (stated as such): singleton / random / default / all-node target sets, extra unused columns incl. base names of group-level functions, debug and minimal-specification options, three index labellings; values bit-identical, one row per input row in input order, exactly the requested columns.",
        note="dags contract trusted; purity lemma by E3; nothing beyond the purity lemma is proved for this property",
        ref="7 C04",
    ),
    "C05": dict(
        engine="E3 frame",
        level="exploration",
        technique="purity (E3) and dtype = declared type (C03) elsewhere; guards against creating derived nodes for data columns checked on the real functions; substitution property as a bounded relational contract on the real API",
        text="Bounded (stated as such): nodes of every class supplied with the values the system computes (DataFrame and dict-of-Series input with differing indexes): default targets unchanged, overlap warning names the node, supplied values are used (never silently ignored) or the call refuses loudly.",
        note="comparison at 1e-12 relative; time-unit nodes are not rules and need no overlap warning",
        ref="7 C05",
    ),
    "C06": dict(
        engine="E3 frame",
        level="proof",
        technique="contract-based: E3 frame contracts (rules pure, parameters only through arguments; loaders write no argument / module state, nothing memoised) + exhaustive contract check of the partial wiring on the real function universe of every function-set class + graph fact on the real DAG; bounded perturbation runs for the glue",
        text="Locality follows from: every rule is pure and reads parameters only via its <group>_params arguments (396 rules, E3); each function is partialled with exactly its own groups' objects (36664 function instances, exhaustive); loaders hand out fresh objects; hence a column outside descendants(users(g)) has no path from g. Bounded stand-in: every group perturbed, rules cloned / replaced, deep copies, baseline after reform runs, in-place reform of a second environment -- all ~320 columns compared bit-for-bit.",
        note="dags contract trusted; E3 is a conservative syntactic checker with a pure list; set-up-time derived values do not follow later perturbations (less change, not more)",
        ref="7 C06",
    ),
    "C07": dict(
        engine="E4 symdate",
        level="proof",
        technique="contract-based verification by exhaustive interval execution: the real set_up_policy_environment runs on interval-valued dates that answer a comparison only when the whole interval agrees (else split), giving a finite partition of ALL calendar days 1980..last entry+1y; each class is checked against an independent specification of the law in force; E1/z3 proofs of is_active_at_date and the overlap check",
        text="About 500 date classes covering every day of 1980-01-01..2032: for each class and parameter group the environment equals specs/param_resolution.py (latest entry, deviations, vorjahr/jahresanfang look-ups, rounding specs, piecewise schedules at 1e-9, year-derived values), exactly the implementation in force is returned for every column name, and every split point the code asked for is a declared change date, 1 January or 29 Feb/1 Mar (or has identical environments on both sides). is_active_at_date and the registration overlap check are proved by z3 for all dates.",
        note="soundness of the interval date (vt/symdate.py: only the overridden observations answer, everything else raises) and of the numpy.datetime64 stub; yaml.CLoader, deepcopy; the specification itself; float comparison 1e-9",
        ref="7 C07",
    ),
    "C08": dict(
        engine=E1,
        level="proof",
        technique="contract-based deductive verification: E1 safety obligations (subscripts resolve, no reachable raise, no unbound local) for every scalar rule of the real default-target DAG on every path, discharged by z3 under VALID and proved parent facts (assume-guarantee over the real DAG); graph obligations on the real DAG",
        text="For every date class >= 2015-01-01: default targets exist, the real DAG is acyclic, roots are documented inputs, rounding specs exist, no unimplemented pointer aggregate is reachable, and every parameter/array subscript, raise and local-variable use of every reachable scalar rule is safe for all inputs (5337 obligations discharged). A refuted obligation's model is replayed on the real rule.",
        note="A1-A4; VALID incl. date-dependent Mietstufen, <= 24 children per recipient, retirement not before 18; rounding=True; facts on aggregation/grouping/time nodes come from the kernel contracts (C11-C13); geburtsdatum/alter_monate (datetime) are assumed contracts; division by a data-dependent zero is C16's obligation (numpy yields inf, not an exception)",
        ref="7 C08",
    ),
    "C09": dict(
        engine=E1,
        level="translation_validation",
        technique="contract-based translation validation: E1 (AST->z3) summaries of the original rule and of the AST produced by the real _make_vectorizable_ast under numpy contracts, z3 searches an argument vector on which they differ; schematic shape lemmas with opaque placeholders; frame contract of make_vectorizable",
        text="All 382 internal scalar policy functions (every validity period) and 47 schematic shapes of the documented style are validated for all argument values: equal meaning, or the rewrite / the array form fails loudly. 26 disagreements exist on the unchanged tree (augmented assignment under if, mixed return/assignment branches, 1-argument reductions over per-row values); each is replayed on the real array form and listed as an open known finding because test_vectorization.py pins those translations.",
        note="A1, A2, A4; numpy.where/logical_*/maximum/minimum contracts trusted; one date class per rule (the first in which it returns); lifting shapes to all programs of the style is a paper argument; datetime rules and array rules excluded (listed)",
        ref="7 C09",
    ),
    "C10": dict(
        engine=E1,
        level="proof",
        technique="contract-based deductive verification: E1 (AST->z3) on the real rounding wrapper for every (base,direction,offset) of the parameter files, all real x; E1 path contract for rounding=False; exhaustive run-time contracts for once-only wiring, missing-spec errors and spec-by-date",
        text="Wrapper arithmetic (direction, grid membership, fixed points, invalid spec raises) proved for all real x by z3 over the E1 summary of the real nested wrapper; rounding=False/True call contract proved by E1; once-only wrapping, missing-spec KeyError and the entry-in-force of the rounding loader checked exhaustively over the finite spaces (all function-set classes, all absence patterns, all date classes of each yaml rounding entry).",
        note="A1 (0.01 is not a binary fraction: the float complement R6 evaluates the real wrapper at grid/half-way/ulp points), A4; numpy.ceil/floor/round contracts trusted; R3-R5 are exhaustive executions, not symbolic",
        ref="7 C10",
    ),
    "C11": dict(
        engine="E2 loopvc",
        level="proof",
        technique="contract-based deductive verification: loop-invariant VCs (self-generated from the real AST, z3 arrays + quantifiers, unbounded N) for sum_by_p_id; abstract execution of the real grouped_* kernels per dtype class against the npg.aggregate contract; exhaustive precedence / result-type tables",
        text="sum_by_p_id: init/preservation/post/safety VCs discharged for any number of rows (ghost partial-sum contract). grouped_count/sum/mean/max/min/any/all: for each dtype class the real straight-line kernel returns exactly Gather(Agg(group_id, column, F), group_id) or raises TypeError outside the documented classes. Spec precedence and result types exhaustively over all presence patterns. Datetime max/min: the kernel's term (cast to days, aggregate, cast back) by abstract execution plus z3 lemmas DT1-DT3 (the day cast is exact and strictly monotone on whole-day values for every numpy unit, so max/min commute with it), under VALID (whole days, no NaT) and the numpy cast contract; bounded-exhaustive run in addition. join_numpy proved modulo numpy contracts and run bounded-exhaustively.",
        note="A1 (summation order ignored); trusted: npg.aggregate contract (validated on all small arrays against the real library in the same run), numpy fancy indexing, loopvc's dict/array model; termination not verified; join_numpy not proved (bounded)",
        ref="7 C11",
    ),
    "C12": dict(
        engine="E2 loopvc",
        level="proof",
        technique="contract-based deductive verification: loop-invariant verification conditions generated from the real source of eg_id/ehe_id/sn_id/bg_id/wthh_id_numpy (dict/Counter/list as z3 arrays, quantified invariants, Skolem partner-row function), discharged by z3 for an unbounded number of rows; fg_id_numpy: staged contracts (index loop functional, assignment loop with nested loop: safety + range + family unit within household + non-partner adults never share) discharged the same way, the partition it computes bounded-exhaustive (the property's own bound)",
        text="512 obligations: VCs (init, preservation per path and conjunct, order-free partition postconditions, exceptional post of sn_id, safety of dict look-ups) discharged for the five kernels and for the two stage contracts of fg_id_numpy (387 VCs: index inverts p_id, children lists sound / complete / non-empty; no KeyError / IndexError, every person gets an id in [0, #units), equal ids imply equal hh_id, two different persons of 25+ or with a child who share an id are partners; under the stronger VALID 'no partnered person is eligible as a child': partners share an id; under the full unambiguity domain: a childless child under 25 has the id of every co-resident parent); collision / nesting lemmas; vacuity canaries. The full partition of fg_id_numpy (incl. ambiguous-free structures of the spec, as oracle and source of failing inputs) is ADDITIONALLY checked against an independent executable unit definition on ALL typed pointer structures up to isomorphism and ALL row orders up to 4 persons (quick) / 5 persons (thorough): bounded, not counted as proved.",
        note="VALID (unique ids, symmetric existing pointers, partners share a household, < 100 split-off children per family unit); Python ints mathematical; termination not verified; the partition postcondition of fg_id_numpy has no inductive invariant in reach (order-dependent overwriting) -> bounded exhaustive; structures with ambiguous unit definition (two co-resident parents that are not partners; partnered persons under 25 living with a parent) are excluded from its domain",
        ref="7 C12",
    ),
    "C13": dict(
        engine=E1,
        level="proof",
        technique="contract-based deductive verification: E1 summaries of the 12 real converters and of every derived time-unit node (closure of the real object), z3 proves value = source * documented factor; wiring exhaustive over the real function universe of every function-set class",
        text="Converter algebra (factor, inverse, composition, additivity) and every derived node = source*factor proved for all real x; availability of all four units, converter/name agreement, no rounding key on derived nodes, and hard-coded unit siblings being computed from each other, checked exhaustively on the real universe of every date class of the function set.",
        note="A1 with relative tolerance 2^-48 (365.25/7 is not a float); factors read from GEP-4; naming convention parsed by an independent suffix parser; dags.rename_arguments trusted; API cross-unit run is a bounded stand-in",
        ref="7 C13",
    ),
    "C14": dict(
        engine="E3 frame",
        level="proof",
        technique="contract-based verification of frame conditions: modular may-alias / effect inference on the real ASTs (param / global / fresh / unknown, self + 2-level reach, flow-sensitive, fix-point over the call graph) checks each function's frame contract against callee frames; global-state, memoisation and determinism census; bounded API histories vs. a fresh interpreter",
        text="compute_taxes_and_transfers assigns nothing reachable from its arguments or module state; the loader entry points write no module state; all 400+ rules, kernels and converters are pure; make_vectorizable creates fresh objects only; module-level state is written only by import-time decoration and set_array_backend; no memoisation, no source of non-determinism; no unknown callee. 491 obligations. History independence beyond the frames is backed by bounded seeded API histories compared with a fresh process (stated as bounded).",
        note="E3 is a conservative syntactic checker, not a separation-logic proof; pure list of library calls assumed; no monkey-patching; JAX back end out of scope; termination not verified",
        ref="7 C14",
    ),
    "C15": dict(
        engine=E1,
        level="proof",
        technique="contract-based deductive verification: non-interference by self-composition over the E1 summary of every group-level scalar rule (z3: two copies differing in one individual-level argument must give equal results); group-levelness of arguments derived along the real DAG",
        text="For every node with a group suffix in the default-target DAG of every date class >= 2015 (thorough: all classes): aggregates use their own group id, time conversions keep the suffix, scalar rules provably do not depend on any argument that is not constant within the unit. Refutations are replayed through the public API with two members of one unit; four open known findings are reported as KNOWN-FINDING.",
        note="A1, A2, A4; unit nesting bg<=fg<=hh, bg<=wthh, eg<=bg,fg,hh, sn<=ehe from C12/C17 and VALID; aggregates constant per group by the C11 contract",
        ref="7 C15",
    ),
    "C16": dict(
        engine=E1,
        level="proof",
        technique="contract-based deductive verification: assume-guarantee over the real DAG (candidate facts kept only when z3 proves them from the E1 strongest postcondition of the rule and the kept facts of its parents), closed-form composition where unary facts are too weak, cap lemmas as z3 queries; E1 divisor / infinity obligations for finiteness",
        text="For every date class >= 2015: every divisor / infinity obligation of every scalar rule of the default-target DAG is discharged (finiteness under A1), each of the 18 default targets is proved non-negative, and the caps named in the property (ALG II, Wohngeld, Kinderzuschlag after the priority checks; Elterngeld maximum plus bonuses; contributions at the assessment ceiling; Grundrente factor caps) are proved. Counter-models are replayed through the API with cut-node values supplied as data.",
        note="A1 (no NaN/overflow reasoning in floats), A2, A4; VALID; rounding=True; kernel contracts of C11-C13 at the cut points; two assumed datetime contracts; the cap list is hand-chosen from the property statement",
        ref="7 C16",
    ),
    "C17": dict(
        engine=E1,
        level="proof",
        technique="contract-based deductive verification: lemmas over the E1 strongest postconditions of the real benefit rules and the kernel contracts (wthh_id post, grouped any/sum/count with Skolem member rows), quantifier-free after Skolemisation, discharged by z3; the wthh_id_numpy contract is re-discharged (E2) in the same check",
        text="Per distinct set of rule versions >= 2015: ALG II/Kinderzuschlag, ALG II/Wohngeld, Grundsicherung vs. the others are mutually exclusive for every person; same needs unit => same Wohngeld part-household; Kinderzuschlag is only paid where it (alone or with Wohngeld) covers the need; each benefit alone is satisfiable (non-vacuity). Counter-models are replayed through the API with the model's columns supplied as data.",
        note="A1, A2; kernel contracts assumed at the cut points are those proved under C11/C12 (wthh_id re-proved here); VALID: Einstandspartner share a household; two aggregate lemmas (sum of 0/1 = count only if all 1; sum of non-negatives >= each member's term) are paper consequences of the C11 sum contract",
        ref="7 C17",
    ),
    "C18": dict(
        engine=E1,
        level="proof",
        technique="contract-based deductive verification: E1 on the real piecewise_polynomial with symbolic x (and symbolic rates_multiplier) against an exact-rational schedule spec, one z3 query per piece; exact-rational resolution of the yaml vs. loader arrays; shape obligations for income tax and solidarity surcharge",
        text="For every distinct piecewise schedule of every date class: thresholds well-formed, evaluator = schedule for all real x on every piece, loader arrays = exact resolution of the yaml entry (progression factor, continuity intercepts); income tax zero/continuous/monotone/convex/top-rate and soli monotone/Lipschitz/cap proved from coefficients and by z3 on the E1 summaries of the real _eink_st_tarif/_soli_st_tarif.",
        note="A1 (float complement: thresholds +-1 ulp evaluation, bounded); date resolution of the raw yaml taken from the real loader (C07); numpy.searchsorted contract trusted",
        ref="7 C18",
    ),
    "C19": dict(
        engine=E1,
        level="proof",
        technique="contract-based deductive verification: strongest postconditions (E1) of the real rules composed along the real DAG into f_X(wage, ...); shape obligations (sign, two-copy monotonicity, zero below mini-job limit, constant above ceiling, no step at the zone boundary, shares sum to total) discharged by z3 in linear real arithmetic",
        text="For every distinct (sozialv_beitr parameters, rule versions) content of the date classes >= 2015 and each of the four branches, 720 obligations over all wages, east/west, children and ages are discharged; counter-models are replayed through compute_taxes_and_transfers on a one-person table (cut-node values supplied as data).",
        note="A1, A2, A4; regular employee (not self-employed, not privately insured); pension parts zero for the mini-job clause; rounding of minijob_grenze / midijob_faktor_f through the C10 contract; wage-independent large sub-DAGs (pension computation) are free symbols constrained by proved facts",
        ref="7 C19",
    ),
}

ENGINES_EXTRA = [
    {"name": "E3 frame", "path": "vt/frame.py", "serves_properties": ["C14", "C06", "C04", "C05"], "kind_free_text": "modular may-alias and effect inference on module ASTs; frame contracts (assigns / result may alias / global writers)"},
    {"name": "E4 symdate", "path": "vt/symdate.py", "serves_properties": ["C07"], "kind_free_text": "interval-valued datetime.date subclass driving the real YAML loader; exhaustive case split over all calendar days"},
    {"name": "E2 loopvc", "path": "vt/loopvc.py", "serves_properties": ["C11", "C12"], "kind_free_text": "weakest-precondition style VC generation for loops over arrays/dicts/lists from the real AST, invariants from sidecar contracts (contracts/groupings.py), z3 arrays + quantifiers, unbounded N"},
]

ENGINES = [
    {"name": E1, "path": "vt/symx.py", "serves_properties": sorted(k for k, v in CLAIMS.items() if v["engine"] == E1), "kind_free_text": "AST->z3 symbolic executor for the scalar Python subset of the policy rules, helpers, converters, piecewise_polynomial and the rounding wrapper; obligations discharged by z3 5.1 (cvc5 on unknown); encoder cross-checked against CPython"},
]

man = {
    "version": 1,
    "setup_cmd": "./setup.sh",
    "hooks": {
        "guard": "GETTSIM_VERIF",
        "enable": "no hooks in /repo: contracts are sidecar files under /verif/contracts and extraction is by inspect/ast at run time; the guard is exported by ./check but no repository line reads it",
        "baseline_off_cmd": "./baseline_check.sh",
        "source_commits": [],
        "add_only": True,
    },
    "engines": ENGINES + ENGINES_EXTRA,
    "checks": [],
    "notes": "Contract-based deductive verification with self-generated verification conditions (no Python verifier exists in the sandbox). See DESIGN.md. fix: commits in /repo: be15bcc (C03 dtype), 27f9d05 (C10/C07 rounding offset), 9be6802 and 4b2a097 (C08), 1d11443 (C12/C01 fg_id step-children), c6dddf1 (C09/C14 make_vectorizable), b8501d0 (C14 caller's data dict).",
    "not_applicable": [],
}
for p in props:
    pid = p["id"]
    if pid in CLAIMS:
        c = CLAIMS[pid]
        man["checks"].append(
            {
                "property_id": pid,
                "quick_cmd": f"./check {pid} --tier quick",
                "thorough_cmd": f"./check {pid} --tier thorough",
                "evidence_file": f"/verif/evidence/{pid}.json",
                "replay_cmd_template": f"./check {pid} --replay {{path}}",
                "engine": c["engine"],
                "level_claimed": {"category": c["level"], "text": c["text"], "design_ref": c["ref"]},
                "level_note": c["note"],
                "technique": c["technique"],
            }
        )
    else:
        man["not_applicable"].append({"property_id": pid, "reason": "check not built yet (planned, see DESIGN.md section 7); not claimed until it exists"})
json.dump(man, open(os.path.join(HERE, "MANIFEST.json"), "w"), indent=1, ensure_ascii=False)
print("claimed:", [c["property_id"] for c in man["checks"]])
