"""CLI: ./check <id> [--tier quick|thorough] [--replay file]"""
from __future__ import annotations

import argparse
import importlib
import os
import sys
import traceback
import warnings


def main():
    ap = argparse.ArgumentParser()
    ap.add_argument("prop")
    ap.add_argument("--tier", default=os.environ.get("VERIF_TIER", "quick"), choices=["quick", "thorough"])
    ap.add_argument("--replay", default=None)
    ap.add_argument("--jobs", type=int, default=int(os.environ.get("VERIF_JOBS", "16")))
    a = ap.parse_args()
    warnings.filterwarnings("ignore")
    try:
        mod = importlib.import_module(f"props.{a.prop}")
    except ModuleNotFoundError as ex:
        print(f"no check for {a.prop}: {ex}", file=sys.stderr)
        return 3
    from vt.report import seed_from_env

    try:
        if a.replay:
            return mod.replay(a.replay)
        return mod.run(tier=a.tier, seed=seed_from_env(), jobs=a.jobs)
    except Exception:  # noqa: BLE001
        traceback.print_exc()
        print(f"CHECKER-CRASH property={a.prop}", file=sys.stderr)
        return 3


if __name__ == "__main__":
    sys.exit(main())
