"""C12 -- derived units (marriage, tax, family, needs, housing) partition correctly.

  V   E2 verification conditions (init / preservation / post / exceptional post / safety, all
      paths, NO bound on the number of rows) for the real eg_id_numpy, ehe_id_numpy, sn_id_numpy,
      bg_id_numpy, wthh_id_numpy against the sidecar contracts in contracts/groupings.py;
      postconditions are the order-free partitions of the property statement
  L   lemmas over the postconditions: ids of different households / family units never collide
      (a*100+x = b*100+y, 0<=x,y<100 => a=b and x=y), nesting bg within fg, wthh within hh
  Q   vacuity canaries: the hypothesis sets (pre, pre+inv) are not refutable
  S   fg_id_numpy stage 1: E2 VCs of its index-building loop (dict of lists as (domain, element arrays,
      lengths)): p_id_to_index inverts p_id, children[x] lists exactly the persons naming x as a parent
      stage 2: E2 VCs of the assignment loop with an inner invariant for its nested loop: safety, range, fg within hh
  F   fg_id_numpy as a whole (the partition produced by the second loop: nested loop over concatenated lists, outside E2): bounded-EXHAUSTIVE over all typed
      pointer structures up to isomorphism and ALL row orders up to 4 persons (quick) / 5 persons
      (thorough) -- the bound the property itself names -- against specs/groupings_spec.py;
      labelled bounded, never counted as proved
  X   the same executable spec run on the five proved kernels for all structures <= 4 rows
      (turns a lost proof into a concrete failing input; vacuity witness)
"""
from __future__ import annotations

import itertools
import json
import time

import numpy
import z3

from specs import groupings_spec as gs
from vt import kernels, par, solve
from vt.report import ASSUMPTIONS, Report

PROVED = ["eg_id_numpy", "ehe_id_numpy", "sn_id_numpy", "bg_id_numpy", "wthh_id_numpy"]
# contracts of single stages of a kernel that is not proved as a whole, unbounded N:
#   #index  fg_id_numpy's index-building loop (p_id_to_index inverts p_id; children lists sound, complete, never empty)
#   #assign its assignment loop incl. the nested loop over the concatenated children lists, under the postcondition of
#           #index: SAFETY (no KeyError / IndexError on any path), RANGE (everybody gets an id in [0, #units)) and NESTING
#           (equal ids imply equal hh_id); who else shares an id is not part of it
#   #partners the same loop under a stronger validity domain (no partnered person is eligible as a child): partners share an id
#   #children the same under the full unambiguity domain: a childless child under 25 has the id of every co-resident parent
# A stage contract speaks about internal state, so a refuted stage obligation is a violation only together with
# a failing input of the whole kernel from the bounded-exhaustive run F; otherwise it is undecided.
STAGES = ["fg_id_numpy#index", "fg_id_numpy#assign", "fg_id_numpy#partners", "fg_id_numpy#children"]


def _vc_worker(name):
    try:
        vcs, info = kernels.verification_conditions(name)
    except kernels.Unsupported as ex:
        return {"name": name, "unsupported": str(ex)}
    res = kernels.discharge(vcs, 30)
    # vacuity canaries: hypothesis sets must not be refutable
    can = []
    for label, q in [(vcs[0][0] + " [hyp]", vcs[0][1][:-1]), (vcs[-1][0] + " [hyp]", vcs[-1][1][:-1])]:
        r = solve.check(q, 5, use_cvc5=False)
        can.append((label, r.status))
    smt = None
    try:
        s = z3.Solver()
        for a in vcs[len(vcs) // 2][1]:
            s.add(a)
        smt = s.to_smt2()[:1500]
    except Exception:  # noqa: BLE001
        pass
    return {"name": name, "res": res, "info": info, "canaries": can, "sample_smt": smt}


def recheck_kernel(rep, name, prefix, consequence):
    """Modularity: a property that relies on the contract of a grouping kernel discharges that contract
    itself. If an obligation is lost -- or the contract no longer binds to the code -- the real kernel is
    run on the bounded domain; a concrete failing input turns the undecided result into a violation."""
    lost = []
    where = "src/_gettsim/groupings.py"
    try:
        vcs, info = kernels.verification_conditions(name)
        where = info["where"]
        for oname, status, backend, secs, reason in kernels.discharge(vcs, 30):
            rep.ob(f"{prefix} " + oname, status, backend, secs, where, "vc", reason)
            if status != "discharged":
                lost.append(oname)
    except kernels.Unsupported as ex:
        rep.ob(f"{prefix} {name}: contract binds to the code", "unsupported", "E2", 0, where, "binding", str(ex))
        lost.append(f"{name}: contract binds to the code")
    if lost:
        bad = (_bounded_couples(4) if name in ("eg_id_numpy", "ehe_id_numpy", "sn_id_numpy") else _bounded_bg_wthh(3))[2]
        bad = [b for b in bad if b["kernel"] == name]
        if bad:
            rep.undecided = [u for u in rep.undecided if not u.startswith(prefix + " ")]
            rep.violation(f"{name}:contract", f"{consequence}: {name} on {bad[0]['inputs']} gives {bad[0]['got']} {bad[0].get('note', '')}", {"obligation": lost[0], **bad[0]}, True)
    rep.functions.add(f"src/_gettsim/groupings.py {name} (by contract)")
    return lost


# ---------------------------------------------------------------------------------------
# bounded exhaustive runs of the real kernels against the executable spec
# ---------------------------------------------------------------------------------------
def _bounded_couples(nmax):
    from _gettsim import groupings as g

    n_eval = 0
    distinct = set()
    bad = []
    for n in range(1, nmax + 1):
        for p_id, ptr in gs.couple_inputs(n):
            exp = gs.expected_couple(p_id, ptr)
            for perm in itertools.permutations(range(n)):
                pp, qq = p_id[list(perm)], ptr[list(perm)]
                for kname, fn in (("eg_id_numpy", g.eg_id_numpy), ("ehe_id_numpy", g.ehe_id_numpy)):
                    got = gs.perm_partition(gs.partition_of(fn(pp, qq)), perm)
                    n_eval += 1
                    if got != exp and len(bad) < 5:
                        bad.append({"kernel": kname, "inputs": {"p_id": pp.tolist(), "ptr": qq.tolist()}, "got": sorted(map(sorted, got)), "expected": sorted(map(sorted, exp))})
                for gv in itertools.product([False, True], repeat=n):
                    gva = numpy.array(gv)[list(perm)]
                    ro = gs.row_of(p_id)
                    consistent = all(ptr[r] < 0 or gv[r] == gv[ro[int(ptr[r])]] for r in range(n))
                    n_eval += 1
                    try:
                        ids = g.sn_id_numpy(pp, qq, gva)
                        raised = False
                    except ValueError:
                        raised = True
                    if raised != (not consistent):
                        if len(bad) < 5:
                            bad.append({"kernel": "sn_id_numpy", "inputs": {"p_id": pp.tolist(), "ptr": qq.tolist(), "gv": gva.tolist()}, "got": "raised" if raised else "returned", "expected": "ValueError" if not consistent else "ids"})
                        continue
                    if not raised:
                        got = gs.perm_partition(gs.partition_of(ids), perm)
                        expsn = gs.expected_sn(p_id, ptr, numpy.array(gv))
                        if got != expsn and len(bad) < 5:
                            bad.append({"kernel": "sn_id_numpy", "inputs": {"p_id": pp.tolist(), "ptr": qq.tolist(), "gv": gva.tolist()}, "got": sorted(map(sorted, got)), "expected": sorted(map(sorted, expsn))})
            distinct.add((n, tuple(ptr.tolist())))
    return n_eval, len(distinct), bad


def _bounded_bg_wthh(nmax):
    from _gettsim import groupings as g

    n_eval = 0
    distinct = 0
    bad = []
    for n in range(1, nmax + 1):
        for fg in itertools.product([0, 3], repeat=n):
            for flags in itertools.product([(30, False), (24, True), (20, False), (25, True)], repeat=n):  # both sides of the age bound
                alter = numpy.array([f[0] for f in flags])
                eig = numpy.array([f[1] for f in flags])
                fga = numpy.array(fg)
                ids = g.bg_id_numpy(fga, alter, eig)
                n_eval += 1
                distinct += 1
                if gs.partition_of(ids) != gs.expected_bg(fga, alter, eig) or any(int(b) // 100 != int(f) for b, f in zip(ids, fga)):
                    if len(bad) < 5:
                        bad.append({"kernel": "bg_id_numpy", "inputs": {"fg_id": fga.tolist(), "alter": alter.tolist(), "eigenbedarf_gedeckt": eig.tolist()}, "got": ids.tolist()})
        if n == nmax:
            # many families with one self-supporting child each, in three row layouts: the offsets count
            # per family (nesting bg // 100 == fg for every row), however many such children the data holds
            m = 130
            for layout in ("parent,child per family", "all parents, then all children", "children first"):
                fam = list(range(m))
                rows = [(f, 40, False) for f in fam] + [(f, 20, True) for f in fam]
                if layout.startswith("parent,child"):
                    rows = [r for f in fam for r in ((f, 40, False), (f, 20, True))]
                elif layout == "children first":
                    rows = rows[m:] + rows[:m]
                fga, alter, eig = (numpy.array([r[k] for r in rows]) for k in range(3))
                ids = g.bg_id_numpy(fga, alter, eig)
                n_eval += 1
                distinct += 1
                if gs.partition_of(ids) != gs.expected_bg(fga, alter, eig) or any(int(b) // 100 != int(f) for b, f in zip(ids, fga)):
                    k = next((i for i, (b, f) in enumerate(zip(ids, fga)) if int(b) // 100 != int(f)), 0)
                    bad.append({"kernel": "bg_id_numpy", "inputs": {"layout": f"{m} families, {layout}", "fg_id": fga.tolist()[: k + 1][-6:], "alter": alter.tolist()[: k + 1][-6:], "eigenbedarf_gedeckt": eig.tolist()[: k + 1][-6:]}, "got": ids.tolist()[: k + 1][-6:], "note": f"row {k}: bg_id {int(ids[k])} does not lie in the block of fg_id {int(fga[k])}"})
        for hh in itertools.product([0, 5], repeat=n):
            for f1 in itertools.product([False, True], repeat=n):
                for f2 in itertools.product([False, True], repeat=n):
                    hha = numpy.array(hh)
                    ids = g.wthh_id_numpy(hha, numpy.array(f1), numpy.array(f2))
                    n_eval += 1
                    distinct += 1
                    if gs.partition_of(ids) != gs.expected_wthh(hha, f1, f2) or any(int(w) // 100 != int(h) for w, h in zip(ids, hha)):
                        if len(bad) < 5:
                            bad.append({"kernel": "wthh_id_numpy", "inputs": {"hh_id": hha.tolist(), "f1": list(f1), "f2": list(f2)}, "got": ids.tolist()})
    return n_eval, distinct, bad


def _fg_chunk(job):
    n, lo, hi = job
    from _gettsim import groupings as g

    n_eval = 0
    n_struct = 0
    bad = {}
    for idx, d in enumerate(itertools.chain(*[gs.family_structures(n, ids=lab) for lab in gs.ID_LABELLINGS])):
        if idx < lo:
            continue
        if idx >= hi:
            break
        n_struct += 1
        exp = gs.expected_fg(d["p_id"], d["hh_id"], d["alter"], d["p_id_einstandspartner"], d["p_id_elternteil_1"], d["p_id_elternteil_2"])
        for perm in itertools.permutations(range(n)):
            dd = gs.permute(d, perm)
            ids = g.fg_id_numpy(dd["p_id"], dd["hh_id"], dd["alter"], dd["p_id_einstandspartner"], dd["p_id_elternteil_1"], dd["p_id_elternteil_2"])
            n_eval += 1
            got = gs.perm_partition(gs.partition_of(ids), perm)
            if got != exp:
                sig = _fg_signature(d, exp, got)
                if sig not in bad:
                    bad[sig] = {"kernel": "fg_id_numpy", "inputs": {k: v.tolist() for k, v in dd.items()}, "got": sorted(map(sorted, got)), "expected": sorted(map(sorted, exp)), "row_order": list(perm), "n": n}
    return n_eval, n_struct, bad


def _fg_signature(d, exp, got):
    """classify a failing structure: which relation is mishandled (stable finding key)"""
    n = len(d["p_id"])
    ro = gs.row_of(d["p_id"])
    kinds = set()
    for a in range(n):
        for b in range(a + 1, n):
            same_e = any(a in g and b in g for g in exp)
            same_g = any(a in g and b in g for g in got)
            if same_e == same_g:
                continue
            rel = []
            for c, p in ((a, b), (b, a)):
                if d["p_id_einstandspartner"][c] == d["p_id"][p]:
                    rel.append("partner")
                if d["p_id"][p] in (d["p_id_elternteil_1"][c], d["p_id_elternteil_2"][c]):
                    # is the parent reached only through its partner?
                    rel.append("child-of-partnered-parent" if d["p_id_einstandspartner"][p] >= 0 else "child-of-single-parent")
            if not rel:
                rel.append("via-third-person")
            kinds.add(("missing:" if same_e else "spurious:") + "+".join(sorted(set(rel))))
    return "|".join(sorted(kinds))


def lemmas(rep):
    a, b, x, y = z3.Ints("a b x y")
    for name, q in {
        "L1 bg ids of different family units never collide: a*100+x = b*100+y, 0<=x,y<100 => a=b, x=y": [a * 100 + x == b * 100 + y, 0 <= x, x < 100, 0 <= y, y < 100, z3.Or(a != b, x != y)],
        "L2 wthh ids of different households never collide: a*100+x = b*100+y, x,y in {0,1} => a=b, x=y": [a * 100 + x == b * 100 + y, 0 <= x, x <= 1, 0 <= y, y <= 1, z3.Or(a != b, x != y)],
    }.items():
        r = solve.check(q, 10)
        rep.ob(name, {"unsat": "discharged", "sat": "refuted"}.get(r.status, "unknown"), r.backend, r.seconds, "src/_gettsim/groupings.py", "lemma")
    # L3: units nest -- needs unit within family unit within household, for any number of rows, composed from the
    # postconditions of bg_id_numpy (bg[i] = fg[i]*100 + c[i], 0 <= c[i] < 100: same bg => same fg) and of
    # fg_id_numpy#assign R2 (same fg => same hh); L4: wthh within hh from wthh[i] = hh[i]*100 + flag[i]
    N, i, j = z3.Ints("N i j")
    bg, fg, hh, c, wt, fl = (z3.Array(n, z3.IntSort(), z3.IntSort()) for n in ("bg", "fg", "hh", "c", "wthh", "flag"))
    rng = lambda v: z3.And(0 <= v, v < N)  # noqa: E731
    ii = z3.Int("ii")
    jj = z3.Int("jj")
    for name, q in {
        "L3 units nest: bg[i] = bg[j] => fg[i] = fg[j] and hh[i] = hh[j] (bg post + fg_id_numpy#assign R2)": [
            z3.ForAll([ii], z3.Implies(rng(ii), z3.And(bg[ii] == fg[ii] * 100 + c[ii], 0 <= c[ii], c[ii] < 100))),
            z3.ForAll([ii, jj], z3.Implies(z3.And(rng(ii), rng(jj), fg[ii] == fg[jj]), hh[ii] == hh[jj])),
            rng(i), rng(j), bg[i] == bg[j], z3.Or(fg[i] != fg[j], hh[i] != hh[j])],
        "L4 wthh within hh: wthh[i] = wthh[j] => hh[i] = hh[j] (wthh post)": [
            z3.ForAll([ii], z3.Implies(rng(ii), z3.And(wt[ii] == hh[ii] * 100 + fl[ii], 0 <= fl[ii], fl[ii] <= 1))),
            rng(i), rng(j), wt[i] == wt[j], hh[i] != hh[j]],
    }.items():
        r = solve.check(q, 10)
        rep.ob(name, {"unsat": "discharged", "sat": "refuted"}.get(r.status, "unknown"), r.backend, r.seconds, "src/_gettsim/groupings.py", "lemma")


def replay(path):
    from _gettsim import groupings as g

    rp = json.loads(open(path).read())
    if rp.get("kernel") == "fg_id_numpy":
        d = {k: numpy.array(v) for k, v in rp["inputs"].items()}
        ids = g.fg_id_numpy(d["p_id"], d["hh_id"], d["alter"], d["p_id_einstandspartner"], d["p_id_elternteil_1"], d["p_id_elternteil_2"])
        exp = gs.expected_fg(d["p_id"], d["hh_id"], d["alter"], d["p_id_einstandspartner"], d["p_id_elternteil_1"], d["p_id_elternteil_2"])
        got = gs.partition_of(ids)
        print(json.dumps({"fg_id": ids.tolist(), "partition": sorted(map(sorted, got)), "expected": sorted(map(sorted, exp))}))
        return 1 if got != exp else 0
    print(json.dumps(rp, indent=1))
    return 0


def run(tier="quick", seed=0, jobs=16):
    rep = Report("C12", tier, seed, "proof")
    rep.assumptions = [ASSUMPTIONS["T"], "VALID: p_id unique and >= 0; partner/spouse pointers are -1 or an existing p_id other than one's own and symmetric; Einstandspartner share hh_id; fewer than 100 self-sufficient children per Familiengemeinschaft; hh_id, fg_id >= 0",
                       "python ints are mathematical integers; dict / Counter / list modelled as (domain, value) arrays / total map / (array, length)",
                       "fg_id_numpy: stage contracts #index, #assign (safety, range, fg within hh, non-partner adults never share), #partners (partners share; VALID: no partnered person is eligible as a child, p_id >= 0), #children (eligible children share with co-resident parents; VALID: parents exist, co-resident parents of an eligible child are partners) are discharged for any number of rows; the full partition is additionally compared with the executable spec bounded-exhaustively up to " + ("4" if tier == "quick" else "5") + " persons (typed structures up to isomorphism x all row orders)"]
    rep.trusted = ["numpy.asarray(list) keeps the elements in order", "enumerate / dict / Counter / list.append / dict of lists (d[k] = [], d[k].append, d.get(k, [])) / list + list (fresh list) / nested for-over-list semantics as modelled in vt/loopvc.py", "z3 5.1.0 (quantifier instantiation)"]
    # V: proofs
    results = par.pmap(_vc_worker, PROVED + STAGES, jobs)
    lost = {}
    stage_skipped = []
    order = {n: k_ for k_, n in enumerate(PROVED + STAGES)}
    results = sorted(results, key=lambda r_: order.get(r_[1], 99))
    for st, name, res in results:
        if st != "ok":
            raise RuntimeError(res)
        if name in ("fg_id_numpy#assign", "fg_id_numpy#partners", "fg_id_numpy#children") and "unsupported" not in res and (any(s_.startswith("fg_id_numpy#index") for s_ in stage_skipped) or "fg_id_numpy#index" in lost):
            # modularity: the VCs of the second stage assume the postcondition of the first; if that was not established
            # in this run, nothing proved from it counts
            res = {"name": name, "unsupported": "its hypothesis, the postcondition of fg_id_numpy#index, was not established in this run"}
        if "unsupported" in res and name in STAGES:
            # the code of this stage has left the E2 subset (e.g. the loop was restructured): the stage contract is an
            # auxiliary, unbounded strengthening on top of the registered route for fg_id_numpy (bounded-exhaustive run F,
            # the property's own bound); it is reported as not checked, F decides. Lost OBLIGATIONS are never dropped.
            stage_skipped.append(f"{name}: not checked, the code is outside the E2 subset ({res['unsupported'][:160]})")
            continue
        if "unsupported" in res:
            rep.ob(f"{name}: contract binds to the code", "unsupported", "E2", 0, "src/_gettsim/groupings.py", "binding", res["unsupported"])
            lost[name] = "unsupported"
            continue
        rep.functions.add(f"{res['info']['where']} {name}")
        for oname, status, backend, secs, reason in res["res"]:
            if name in STAGES and status == "refuted":
                status, reason = "unknown", "stage contract (internal state) fails; decided only by a failing input of the whole kernel in the bounded run F"
            rep.ob(oname, status, backend, secs, res["info"]["where"], "vc", reason)
            if status != "discharged":
                lost.setdefault(name, []).append((oname, status))
        for label, status in res["canaries"]:
            if status == "unsat":
                rep.ob(f"Q vacuity: hypotheses of `{label}` are contradictory", "refuted", "z3", 0, "", "vacuity")
                rep.crashed = "vacuous hypotheses"
        if res.get("sample_smt"):
            rep.samples.append({"obligation": res["res"][len(res["res"]) // 2][0], "smtlib_prefix": res["sample_smt"][:600]})
    lemmas(rep)
    # X + F: bounded exhaustive
    t0 = time.time()
    ne, nd, bad = _bounded_couples(4)
    ne2, nd2, bad2 = _bounded_bg_wthh(3)
    rep.bounded["proved_kernels_vs_spec"] = {"evaluations": ne + ne2, "distinct_nontrivial": nd + nd2, "rule": "eg/ehe/sn: all partial matchings of <=4 persons x all row orders x all flag vectors; bg/wthh: all inputs over small domains for <=3 rows; distinct = structures", "failures": (bad + bad2)[:5], "exhaustive": True}
    nmax = 4 if tier == "quick" else 5
    import inspect as _insp

    from _gettsim import groupings as _g0

    fg_sig = list(_insp.signature(_insp.unwrap(_g0.fg_id_numpy)).parameters)
    fg_binds = fg_sig == ["p_id", "hh_id", "alter", "p_id_einstandspartner", "p_id_elternteil_1", "p_id_elternteil_2"]
    if not fg_binds:
        rep.ob("F fg_id_numpy: the specification binds to the kernel (its inputs are p_id, hh_id, alter, partner and parent pointers)", "unsupported", "binding", 0, "src/_gettsim/groupings.py fg_id_numpy", "binding", f"signature is now {fg_sig}")
    jobs_list = []
    for n in range(1, (nmax if fg_binds else 0) + 1):
        total = len(gs.ID_LABELLINGS) * sum(1 for _ in gs.family_structures(n))
        step = max(1, total // (jobs * (4 if n >= 4 else 1)) + 1)
        for lo in range(0, total, step):
            jobs_list.append((n, lo, min(total, lo + step)))
    fg_eval = 0
    fg_struct = 0
    fg_bad = {}
    for st, job, res in par.pmap(_fg_chunk, jobs_list, jobs):
        if st != "ok":
            raise RuntimeError(res)
        fg_eval += res[0]
        fg_struct += res[1]
        for sig, ex in res[2].items():
            if sig not in fg_bad or ex["n"] < fg_bad[sig]["n"]:
                fg_bad[sig] = ex
    rep.bounded["fg_id_numpy_exhaustive"] = {"evaluations": fg_eval, "distinct_nontrivial": fg_struct, "rule": f"all typed pointer structures up to isomorphism with <= {nmax} persons, <= 2 households (roles adult/young adult/child; symmetric partner matchings; parents among older roles; two p_id labellings, one with p_id 0 as the first adult) x ALL row orders; oracle specs/groupings_spec.expected_fg", "failure_classes": sorted(fg_bad), "exhaustive": True, "seconds": round(time.time() - t0, 1)}
    # randomly beyond five persons (seeded)
    import random as _r

    from _gettsim import groupings as g_

    rng = _r.Random(seed)
    n_rand = 0
    for _ in range((300 if tier == "quick" else 4000) if fg_binds else 0):
        n = rng.randint(6, 8)
        d = gs.random_structure(n, rng)
        if d is None:
            continue
        exp = gs.expected_fg(d["p_id"], d["hh_id"], d["alter"], d["p_id_einstandspartner"], d["p_id_elternteil_1"], d["p_id_elternteil_2"])
        for _k in range(6):
            perm = tuple(rng.sample(range(n), n))
            dd = gs.permute(d, perm)
            ids = g_.fg_id_numpy(dd["p_id"], dd["hh_id"], dd["alter"], dd["p_id_einstandspartner"], dd["p_id_elternteil_1"], dd["p_id_elternteil_2"])
            n_rand += 1
            got = gs.perm_partition(gs.partition_of(ids), perm)
            if got != exp:
                sig = "random:" + _fg_signature(d, exp, got)
                if sig not in fg_bad:
                    fg_bad[sig] = {"kernel": "fg_id_numpy", "inputs": {k: v.tolist() for k, v in dd.items()}, "got": sorted(map(sorted, got)), "expected": sorted(map(sorted, exp)), "row_order": list(perm), "n": n}
    # boundary ages (the enumeration above uses 40 / 22 / 8): parent + co-resident child aged 23..27, childless or with an
    # own child, both p_id labellings, all row orders -- witnesses for the clause "children under 25" / "childless"
    n_age = 0
    for age in (range(23, 28) if fg_binds else ()):
        for with_grandchild in (False, True):
            for ids in ((0, 1, 2), (7, 3, 5)):
                n = 3 if with_grandchild else 2
                d = {"p_id": numpy.array(ids[:n]), "hh_id": numpy.array([4] * n), "alter": numpy.array([50, age, 1][:n]),
                     "p_id_einstandspartner": numpy.array([-1] * n), "p_id_elternteil_1": numpy.array([-1, ids[0], ids[1]][:n]), "p_id_elternteil_2": numpy.array([-1] * n)}
                exp = gs.expected_fg(d["p_id"], d["hh_id"], d["alter"], d["p_id_einstandspartner"], d["p_id_elternteil_1"], d["p_id_elternteil_2"])
                for perm in itertools.permutations(range(n)):
                    dd = gs.permute(d, perm)
                    ids_ = g_.fg_id_numpy(dd["p_id"], dd["hh_id"], dd["alter"], dd["p_id_einstandspartner"], dd["p_id_elternteil_1"], dd["p_id_elternteil_2"])
                    n_age += 1
                    got = gs.perm_partition(gs.partition_of(ids_), perm)
                    if got != exp:
                        sig = f"boundary-age:{age}:{'with' if with_grandchild else 'no'}-own-child"
                        fg_bad.setdefault(sig, {"kernel": "fg_id_numpy", "inputs": {k: v.tolist() for k, v in dd.items()}, "got": sorted(map(sorted, got)), "expected": sorted(map(sorted, exp)), "row_order": list(perm), "n": n})
    rep.bounded["fg_id_numpy_boundary_ages"] = {"evaluations": n_age, "distinct_nontrivial": 10 if n_age else 0, "rule": "parent (50) + co-resident child aged 23..27, childless or with an own child, two labellings, all row orders; distinct = (age, own child)"}
    if stage_skipped:
        rep.assumptions.extend(stage_skipped)
        rep.bounded["fg_id_numpy_stage_contracts_not_checked"] = {"evaluations": 0, "distinct_nontrivial": 0, "rule": "; ".join(stage_skipped)}
    rep.bounded["fg_id_numpy_random"] = {"evaluations": n_rand, "distinct_nontrivial": n_rand // 6, "rule": "seeded random unambiguous structures with 6-8 persons, up to 3 households, random p_id labels, 6 random row orders each; distinct = structures"}
    rep.functions.add("src/_gettsim/groupings.py:101 fg_id_numpy (both loops by stage contracts: #index functional; #assign / #partners / #children: safety, range, R2 nesting, R3 exclusion, R4 partners, R5 children, on the stated validity domains; the full partition additionally bounded-exhaustive against the executable spec)")
    for b in bad + bad2:
        rep.violation(f"{b['kernel']}:spec-mismatch", f"{b['kernel']} on {b['inputs']} gives {b['got']}, expected {b.get('expected')}", b, True)
    for sig, ex in sorted(fg_bad.items()):
        rep.violation(f"fg_id_numpy:{sig}", f"fg_id_numpy row order {ex['row_order']} of {ex['inputs']} yields partition {ex['got']}, the unit definition prescribes {ex['expected']}", ex, True)
    # a lost proof without a failing input
    failing_kernels = {b["kernel"] for b in bad + bad2}
    for name, what in lost.items():
        if name in failing_kernels or what == "unsupported":
            continue
        refuted = [o for o, s in what if s == "refuted"]
        if refuted:
            rep.violation(f"{name}:{refuted[0]}", f"obligation refuted: {refuted[0]}", {"obligation": refuted[0], "all": what}, failing_input_found=False)
    # obligations lost for a kernel whose bounded run found a failing input are decided (violation)
    if fg_bad:
        failing_kernels.add("fg_id_numpy")
    if failing_kernels:
        rep.undecided = [u for u in rep.undecided if not any(u.startswith(k + ":") or u.startswith(k + "#") for k in failing_kernels)]
    if rep.crashed:
        rep.finish()
        return 3
    return rep.finish({"kernels_proved": PROVED, "kernel_bounded_only": ["fg_id_numpy"], "exhaustive": False})
