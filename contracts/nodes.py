"""Named intermediate contracts on computed columns (DESIGN.md 2.2): candidates that the
assume-guarantee pass (vt/facts.py) must PROVE from the rule's strongest postcondition and the
facts of its parents before they may be used downstream. Nothing here is assumed."""

EXTRA_CANDIDATES = {
    # needed by durchschn_entgeltp (divides by age_of_retirement - 16 years)
    "age_of_retirement": [("older than 16 at retirement", lambda r: r > 16)],
}


# Caps the parameters encode directly for one column (C16): the column never exceeds the parameter.
# (node, parameter group, path below the group). Each entry was provable on the tree the contract was
# written for; it is an obligation from then on, not a candidate.
PARAM_CAPS = [
    ("_arbeitsl_geld_2_alleinerz_mehrbedarf_m", "arbeitsl_geld_2", ("mehrbedarf_anteil", "max")),
    ("_arbeitsl_geld_2_warmmiete_pro_qm_m", "arbeitsl_geld_2", ("max_miete_pro_qm", "max")),
    ("eink_st_abz_betreuungskost_y", "eink_st_abzuege", ("kinderbetreuungskosten_abz_maximum",)),
]
