"""C02 -- separability and relabelling. See props/C01.py (shared machinery)."""
from props import C01 as _c01

replay = _c01.replay


def run(tier="quick", seed=0, jobs=16):
    return _c01.run(tier=tier, seed=seed, jobs=jobs, which="C02")
