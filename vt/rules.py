"""Rule-level machinery shared by C03 / C08 / C15 / C16: summarise every scalar rule of a date
class with the concrete parameters of that class (E1), cached within the run by
(function identity, fingerprint of the parameter groups it receives)."""
from __future__ import annotations

import datetime
import inspect
import os

import z3

from contracts import inputs as vin
from vt import env as venv
from vt import symx

RANGE_BOUND = 50  # unrolling bound for `range(1, n+1)` over a symbolic count (children)


def is_scalar_rule(func):
    """A rule that `_vectorize_func` wraps: every non-params argument annotated float/int/bool."""
    f0 = inspect.unwrap(func)
    info = getattr(func, "__info__", None) or {}
    if info.get("skip_vectorization"):
        return False, "skip_vectorization (array rule)"
    try:
        sig = inspect.signature(f0)
    except (TypeError, ValueError):
        return False, "no signature"
    for n in sig.parameters:
        if n.endswith("_params"):
            continue
        ann = symx.annotation_type(func, n)
        if ann not in (float, int, bool, "float", "int", "bool"):
            return False, f"argument {n} annotated {ann!r} (helper or non-scalar rule)"
    return True, ""


def declared_return(func):
    ann = symx.annotation_type(func, "return")
    return symx.PYTYPES.get(ann)


def group_fps(env):
    out = {}
    for g, p in env.params.items():
        q = {k: v for k, v in p.items() if k != "datum"} if isinstance(p, dict) else p
        out[g] = venv.params_fingerprint(q)
    return out


class RuleSummaries:
    """Per-process cache of summaries across the date classes a worker handles."""

    def __init__(self):
        self.cache = {}

    def key(self, env, fps, func):
        f0 = inspect.unwrap(func)
        groups = [a[:-7] for a in inspect.signature(f0).parameters if a.endswith("_params")]
        return (f0.__module__, f0.__qualname__, tuple((g, fps.get(g)) for g in groups))

    def get(self, env, fps, func):
        """-> (key, summary | Unsupported instance, fresh: bool)"""
        k = self.key(env, fps, func)
        if k in self.cache:
            return k, self.cache[k], False
        try:
            s = symx.summarise(func, conc_args=env.conc_params_for(func), range_bound=RANGE_BOUND)
        except symx.Unsupported as ex:
            s = ex
        except RecursionError as ex:
            s = symx.Unsupported(f"recursion: {ex}")
        self.cache[k] = s
        return k, s, True


def where_of(func):
    f0 = inspect.unwrap(func)
    try:
        return f"{inspect.getsourcefile(f0).replace(os.environ.get('VERIF_REPO', '/repo') + '/', '')}:{f0.__code__.co_firstlineno}"
    except Exception:  # noqa: BLE001
        return "?"


def valid_pre(summary):
    cl, used = vin.valid_for_args(summary.args)
    return cl, used


def model_inputs(model, summary):
    """model -> {arg name: python value} for the symbolic args of a summary"""
    from fractions import Fraction

    out = {}
    for name, (term, ty) in summary.args.items():
        v = model.eval(term, model_completion=True)
        if ty == "bool":
            out[name] = bool(z3.is_true(v))
        elif ty == "int":
            out[name] = v.as_long()
        else:
            if z3.is_rational_value(v):
                out[name] = float(Fraction(v.numerator_as_long(), v.denominator_as_long()))
            elif z3.is_int_value(v):
                out[name] = float(v.as_long())
            else:
                out[name] = float(v.approx(15).numerator_as_long()) / float(v.approx(15).denominator_as_long())
    return out


def quick_dates(since=None):
    """All date classes (first day of each). Quick and thorough both cover every class; the
    summaries are cached by content so that the cost is dominated by the real loader."""
    return [c[0] for c in venv.date_classes(since=since)]


D2015 = datetime.date(2015, 1, 1)
