"""C15 -- group-level columns have one value per group.

For every node x_<g> (g in hh, wthh, fg, bg, eg, ehe, sn) of the real default-target DAG of each
date class:
  * aggregation node  -> aggregates by <g>_id itself (then constant per group by the C11 contract)
  * time conversion   -> its source carries the same group suffix
  * scalar rule       -> NON-INTERFERENCE (E1 self-composition): split the arguments into
        group-level ones and the rest, where "group-level for g" is derived along the real DAG:
        inputs / ids / aggregates carrying the suffix of a unit that contains g (bg<=fg<=hh,
        bg<=wthh<=hh, eg<=bg,fg,hh, sn<=ehe), and rules all of whose arguments are group-level; for every remaining argument a, z3 must prove
            for all inputs:  f(.., a, ..) = f(.., a', ..)
        i.e. the result cannot differ between two members of one group that differ in a.
    A refuted query yields two members of one group with different values of an individual-level
    input; it is replayed through the public API (group id and the rule's inputs supplied as data).
"""
from __future__ import annotations

import datetime
import inspect
import json

import numpy
import z3

from contracts import inputs as vin
from vt import env as venv
from vt import facts, par, popgen, rules, solve, symx
from vt.report import ASSUMPTIONS, Report

# g -> units that contain every g-group (VALID: Einstandspartner share a household; C12 nesting;
# C17 lemma: all members of a bg fall into the same wthh)
NEST = {
    "hh": {"hh"},
    "wthh": {"wthh", "hh"},
    "fg": {"fg", "hh"},
    "bg": {"bg", "fg", "hh", "wthh"},
    "eg": {"eg", "fg", "hh", "bg"},  # VALID: persons with an Einstandspartner are not split-off children
    "ehe": {"ehe"},
    "sn": {"sn", "ehe"},
}


def suffix_of(name, groupings):
    for g in groupings:
        if name.endswith("_" + g):
            return g
    return None


def _tainted():
    """group-level columns that are the subject of an open known finding of this property"""
    import re as _re

    try:
        ks = json.load(open(venv.REPO.parent / "verif" / "known_findings.json")) if False else json.load(open(__file__.rsplit("/props/", 1)[0] + "/known_findings.json"))
    except Exception:  # noqa: BLE001
        return set()
    out = set()
    for k in ks:
        if k.get("property") == "C15" and k.get("status") == "open":
            m = _re.match(r"^([^()]+)\(", k.get("key", ""))
            if m and any(m.group(1).endswith("_" + g) for g in NEST) and not k.get("consequence_of"):
                out.add(m.group(1))
    return out


TAINTED = set()


def _worker(dates):
    from _gettsim.config import SUPPORTED_GROUPINGS


    groupings = sorted(SUPPORTED_GROUPINGS, key=len, reverse=True)
    out = {"items": {}, "n_nodes": 0, "solver_s": 0.0}
    seen = set()
    for d in dates:
        e = venv.Env(d)
        df = facts.DagFacts(e)
        df._fix_aggregate_types()
        fps = rules.group_fps(e)
        # CG(n): the units within which column n is constant, derived along the DAG
        import networkx as nx

        def one_pass(tainted):
            node_key = {}
            CG = {}
            for n in nx.topological_sort(df.dag):
                if n.endswith("_params"):
                    continue
                k = df.kind.get(n)
                sfx = suffix_of(n, groupings)
                if k == "input" or k == "missing_root":
                    base = sfx if sfx else (n[:-3] if n.endswith("_id") and n[:-3] in NEST else None)
                    CG[n] = {g for g in NEST if base in NEST[g]} if base else set()
                elif k == "grouping":
                    CG[n] = {g for g in NEST if n[:-3] in NEST[g]}
                elif k == "aggregate_by_group":
                    gid = list(inspect.signature(df.fno[n]).parameters)[-1]
                    CG[n] = {g for g in NEST if gid[:-3] in NEST[g]}
                elif k in ("scalar_rule", "time_conversion"):
                    ps = [a for a in inspect.signature(inspect.unwrap(df.fno[n]) if k == "scalar_rule" else df.fno[n]).parameters if not a.endswith("_params")]
                    cg = set(NEST)
                    for a in ps:
                        cg &= CG.get(a, set())
                    # a node that carries a group suffix is constant within that unit by its OWN
                    # obligation (assume-guarantee): consumers are not charged for a producer's defect
                    # ... unless the producer is the subject of an OPEN known finding: then its value is known to
                    # vary within the group, and a rule that reads it inherits the defect (a NEW reader of such
                    # a column is a new violation, reported under the reader's own name)
                    if sfx and n not in tainted:
                        cg |= {g for g in NEST if sfx in NEST[g]}
                    CG[n] = cg
                else:
                    CG[n] = set()
            for n in df.dag.nodes:
                g = suffix_of(n, groupings)
                if g is None or n not in df.fno:
                    continue
                out["n_nodes"] += 1
                kind = df.kind[n]
                f = df.fno[n]
                if kind in ("aggregate_by_group",):
                    gid = list(inspect.signature(f).parameters)[-1]
                    key = ("agg", n, gid)
                    if key in seen:
                        continue
                    seen.add(key)
                    ok = gid == f"{g}_id"
                    out["items"][str(key)] = {"name": f"{n}: aggregates by its own group id", "status": "discharged" if ok else "refuted", "detail": f"group id argument {gid}", "date": str(d)}
                    continue
                if kind == "aggregate_by_p_id":
                    key = ("aggp", n)
                    if key not in seen:
                        seen.add(key)
                        out["items"][str(key)] = {"name": f"{n}: person-pointer aggregate with a group suffix", "status": "refuted", "detail": "a pointer aggregate is individual-level", "date": str(d)}
                    continue
                if kind == "time_conversion":
                    (src,) = list(inspect.signature(f).parameters)
                    key = ("tc", n, src)
                    if key in seen:
                        continue
                    seen.add(key)
                    ok = suffix_of(src, groupings) == g
                    out["items"][str(key)] = {"name": f"{n}: time conversion of a column of the same group", "status": "discharged" if ok else "refuted", "detail": f"source {src}", "date": str(d)}
                    continue
                if kind != "scalar_rule":
                    continue
                f0 = inspect.unwrap(f)
                args = [a for a in inspect.signature(f0).parameters if not a.endswith("_params")]
                indiv = [a for a in args if g not in CG.get(a, set())]
                key = ("rule", f0.__module__, f0.__qualname__, tuple((x, fps.get(x[:-7])) for x in inspect.signature(f0).parameters if x.endswith("_params")), tuple(indiv))
                node_key[n] = str(key)
                if key in seen:
                    continue
                seen.add(key)
                item = {"name": f"{n} ({f0.__qualname__}): depends on group-level arguments only", "status": "discharged", "detail": f"individual-level arguments: {indiv}", "date": str(d), "node": n, "group": g, "qualname": f0.__qualname__, "tainted_args": [a for a in indiv if a in tainted]}
                out["items"][str(key)] = item
                if not indiv:
                    continue
                sym = {}
                bad_type = None
                for a in args:
                    t = df.types.get(a)
                    if t is None:
                        bad_type = a
                    sym[a] = t
                if bad_type:
                    item["status"] = "unsupported"
                    item["detail"] = f"argument {bad_type} has no type"
                    continue
                try:
                    s = symx.summarise(f, sym_args=sym, conc_args=e.conc_params_for(f), range_bound=rules.RANGE_BOUND)
                except symx.Unsupported as ex:
                    item["status"] = "unsupported"
                    item["detail"] = str(ex)
                    continue
                if isinstance(s.result, symx.Undefined):
                    continue
                pre = []
                for a in args:
                    if df.kind.get(a) == "input":
                        pre.extend(vin.valid_clause(a, s.args[a][0], sym[a], e.params))
                try:
                    if df.types.get(n) == "bool":
                        res = symx._b(symx.Executor().truthy(s.result))
                    else:
                        res = symx.real_term(s.result, pre)
                except (symx.Unsupported, symx.InfiniteValue) as ex:
                    item["status"] = "unsupported"
                    item["detail"] = str(ex)
                    continue
                ret = symx.mk_or(*[gd for gd, _ in s.returns])
                for a in indiv:
                    term, ty = s.args[a]
                    a2 = facts.mkvar(a + "'", ty)
                    res2 = z3.substitute(res, (term, a2))
                    pre2 = [z3.substitute(c, (term, a2)) for c in pre]
                    ret2 = z3.substitute(ret, (term, a2))
                    r = solve.check([*pre, *pre2, ret, ret2, res != res2], 30)
                    out["solver_s"] += r.seconds
                    if r.status == "unsat":
                        continue
                    if r.status == "sat":
                        m = r.model
                        inp = rules.model_inputs(m, s)
                        v2 = m.eval(a2, model_completion=True)
                        inp2 = dict(inp)
                        inp2[a] = bool(z3.is_true(v2)) if ty == "bool" else v2.as_long() if ty == "int" else float(v2.numerator_as_long()) / float(v2.denominator_as_long()) if z3.is_rational_value(v2) else 0.0
                        item["status"] = "refuted"
                        item.setdefault("witnesses", []).append({"arg": a, "member1": inp, "member2": inp2})
                    else:
                        if item["status"] != "refuted":
                            item["status"] = "unknown"
                        item["detail"] += f"; {a}: solver {r.status}"
            return node_key

        nk = one_pass(frozenset())
        # producers refuted at THIS date vary within their group: rules that read them inherit the defect and are
        # charged for it in a second pass (a new reader of a known-defective column is a new violation)
        refuted_here = frozenset(n_ for n_, k_ in nk.items() if out["items"].get(k_, {}).get("status") == "refuted")
        if refuted_here:
            one_pass(refuted_here)
    return out


def api_replay(date, node, group, w):
    """two members of one group, rule inputs supplied as data; -> (differs?, values)"""
    e = venv.Env(datetime.date.fromisoformat(date))
    cols = {}
    for k in w["member1"]:
        cols[k] = [w["member1"][k], w["member2"][k]]
    df = popgen.to_frame([popgen.person(0, 0), popgen.person(1, 0)])
    import pandas as pd

    for k, v in cols.items():
        df[k] = pd.Series(v)
    from _gettsim.config import SUPPORTED_GROUPINGS

    groupings = sorted(SUPPORTED_GROUPINGS, key=len, reverse=True)
    ga = suffix_of(w["arg"], groupings)
    for gid in ("hh", "fg", "bg", "eg", "ehe", "sn", "wthh"):
        # the two persons share the unit of the node (and every unit containing it); they are in
        # different units of the kind the offending argument belongs to
        df[f"{gid}_id"] = [0, 1] if (gid == ga and gid not in NEST[group]) else [0, 0]
    roots = popgen.required_roots(e, [node], list(df.columns))
    for r in roots:
        if r not in df.columns:
            df[r] = 0.0
    res = popgen.simulate(e, df, targets=[node])
    vals = res[node].tolist()
    return vals[0] != vals[1], vals


def replay(path):
    rp = json.loads(open(path).read())
    if "witness" in rp:
        bad, vals = api_replay(rp["date"], rp["node"], rp["group"], rp["witness"])
        print(json.dumps({"values_within_one_group": vals, "violates": bad}))
        return 1 if bad else 0
    print(json.dumps(rp, indent=1))
    return 0


def run(tier="quick", seed=0, jobs=16):
    rep = Report("C15", tier, seed, "proof")
    rep.assumptions = [ASSUMPTIONS["A1"], ASSUMPTIONS["A2"], ASSUMPTIONS["A4"], vin.describe(),
                       "unit nesting used to classify arguments: bg within fg within hh, bg within wthh within hh (C17), eg within fg within hh (VALID: Einstandspartner share a household), eg within bg (VALID: a person with an Einstandspartner is not a self-supporting child under 25; bg_id_numpy P1), sn within ehe (C12 postconditions)",
                       "aggregation nodes are constant per group by the C11 contract (out[i] depends on gid[i] only)"]
    rep.trusted = ["z3 5.1.0 / cvc5 1.4.0", "E1 encoder", "dags graph construction"]
    since = rules.D2015 if tier == "quick" else None
    classes = [c[0] for c in venv.date_classes(since=since, until=venv.last_parameter_date())]
    if tier == "quick":
        # before 2015: one representative per set of active rule implementations (the obligation is about
        # which columns a rule reads; parameters enter only through constants)
        early = [c if isinstance(c, datetime.date) else c[0] for c in venv.function_set_classes()]
        classes = sorted(set(classes) | {c for c in early if c < rules.D2015})
    results = par.pmap(_worker, par.chunks(classes, jobs), jobs)
    items = {}
    n_nodes = 0
    for st, job, res in results:
        if st != "ok":
            raise RuntimeError(res)
        n_nodes += res["n_nodes"]
        for k, v in res["items"].items():
            items.setdefault(k, v)
    for k, it in sorted(items.items()):
        rep.ob(it["name"] + "@" + it["date"], it["status"], "z3", 0, "", "non-interference", it["detail"])
        if it["status"] == "refuted":
            if it.get("witnesses"):
                for w in it["witnesses"]:
                    try:
                        bad, vals = api_replay(it["date"], it["node"], it["group"], w)
                    except Exception as ex:  # noqa: BLE001
                        bad, vals = False, repr(ex)
                    if w["arg"] in (it.get("tainted_args") or []):
                        rep.violation(f"{it.get('qualname', it['node'])}({w['arg']})", f"{it['node']} ({it.get('qualname')}) reads {w['arg']}, a column that is known to vary within its group (open known finding): two members of one {it['group']} with {w['arg']}={w['member1'][w['arg']]} / {w['member2'][w['arg']]} get {vals}", {"date": it["date"], "node": it["node"], "group": it["group"], "witness": w, "obligation": it["name"], "consequence_of": w["arg"]}, failing_input_found=bool(bad))
                        continue
                    rep.violation(f"{it['node']}({w['arg']})", f"{it['node']} takes the individual-level argument {w['arg']}: two members of one {it['group']} with {w['arg']}={w['member1'][w['arg']]} / {w['member2'][w['arg']]} get {vals}", {"date": it["date"], "node": it["node"], "group": it["group"], "witness": w, "obligation": it["name"]}, failing_input_found=bool(bad))
            else:
                rep.violation(it["name"], it["detail"], {"obligation": it["name"], "date": it["date"]}, True)
    # KN: the unit nesting used above rests on the contract of bg_id_numpy (bg within fg: P2; partners, who
    # share the fg and under VALID are not split-off children, share the bg: P1). Modularity: a change
    # inside bg_id_numpy is visible here only through that contract, so it is discharged here as well.
    import z3

    from props import C12 as c12
    from vt import kernels

    c12.recheck_kernel(rep, "bg_id_numpy", "KN", "the needs-unit contract the nesting eg/bg/fg rests on does not hold (persons who are not split-off children under 25 are separated from their family unit, or ids leave the block of their family, so _bg columns read by _eg / _fg rules differ within the group)")
    fi, fj, ri, rj = z3.Ints("fg_i fg_j bg_i bg_j")
    si, sj, same = z3.Bools("split_i split_j same_person")
    p1 = (ri == rj) == z3.And(fi == fj, z3.Or(same, z3.And(z3.Not(si), z3.Not(sj))))
    r = solve.check([p1, fi == fj, z3.Not(si), z3.Not(sj), ri != rj], 10)
    rep.ob("KN lemma: two partners (same fg by the fg contract, neither a split-off child by VALID) have the same bg_id, from postcondition P1 of bg_id_numpy", {"unsat": "discharged", "sat": "refuted"}.get(r.status, "unknown"), r.backend, r.seconds, "contracts/groupings.py bg_contract", "lemma")
    rep.functions.add("src/_gettsim/groupings.py:18 bg_id_numpy (by contract)")
    # aggregation nodes are constant per group BY the C11 kernel contract: its exhaustive run (small and large
    # sparse ids, unsorted rows) is part of this check as well
    from props import C11 as c11

    c11.bounded(rep, "quick")
    c11.dispatch_contract(rep)  # ... and the factory really calls the kernel of the requested kind on (source, group id)
    # IN: the classification above treats group-suffixed INPUT columns as constant within the unit;
    # that is what the real input check guarantees -- for every grouping, not only hh
    import pandas as pd

    from _gettsim.config import SUPPORTED_GROUPINGS
    from _gettsim.interface import _fail_if_group_variables_not_constant_within_groups

    rep.functions.add("src/_gettsim/interface.py:436 _fail_if_group_variables_not_constant_within_groups")
    for g in SUPPORTED_GROUPINGS:
        ok = {}
        for label, vals, must_raise in (("non-constant", [1.0, 2.0, 5.0], True), ("constant", [1.0, 1.0, 5.0], False)):
            data = {f"{g}_id": pd.Series([0, 0, 1]), f"x_{g}": pd.Series(vals), "p_id": pd.Series([0, 1, 2])}
            try:
                _fail_if_group_variables_not_constant_within_groups(data)
                raised = False
            except ValueError:
                raised = True
            ok[label] = raised == must_raise
        good = all(ok.values())
        rep.ob(f"IN input check: a column x_{g} that varies within {g}_id is rejected, a constant one is accepted", "discharged" if good else "refuted", "exhaustive-run", 0, "src/_gettsim/interface.py:436", "input-contract", str(ok))
        if not good:
            rep.violation(f"input-check:{g}", f"_fail_if_group_variables_not_constant_within_groups accepts a column x_{g} with several values within one {g}_id (values [1.0, 2.0] in group 0): group-level columns computed from it inherit several values per group", {"obligation": f"IN {g}", "data": {f"{g}_id": [0, 0, 1], f"x_{g}": [1.0, 2.0, 5.0]}}, True)
    # API stand-in (bounded, never counted as proved): in the frame the user gets back -- default and permuted
    # index labels, debug on and off -- every group-suffixed column is constant within the group id
    # column of the same frame
    from _gettsim.config import DEFAULT_TARGETS

    from vt import apirel

    e_ = venv.Env("2023-07-01")
    pop_ = popgen.population(["family", "pensioners", "single_parent", "couple"], year=2023, seed=seed)
    n_api = 0
    bad_api = []
    gcols = None
    for label, idx in (("default", None), ("permuted", [5, 3, 8, 0, 9, 1, 7, 2, 6, 4, 10, 11][: len(pop_)] if len(pop_) <= 12 else list(reversed(range(len(pop_)))))):
        data_ = pop_.copy()
        if idx is not None and len(idx) == len(data_):
            data_.index = idx
        elif idx is not None:
            data_.index = list(reversed(range(len(data_))))
        for debug in (False, True):
            if gcols is None:
                gl = sorted(SUPPORTED_GROUPINGS, key=len, reverse=True)
                gcols = [n_ for n_ in apirel.function_nodes(e_, None, list(pop_.columns)) if suffix_of(n_, gl) is not None]
            tg = sorted(set([t for t in DEFAULT_TARGETS] + ["bg_id", "fg_id", "eg_id", "sn_id", "wthh_id", "ehe_id"] + gcols))
            try:
                res_, _ = apirel.simulate(e_, data_, targets=tg, debug=debug)
            except Exception as ex:  # noqa: BLE001
                bad_api.append(f"index {label}, debug={debug}: call fails {ex!r}"[:200])
                continue
            n_api += 1
            for c in res_.columns:
                g_ = suffix_of(c, sorted(SUPPORTED_GROUPINGS, key=len, reverse=True))
                if g_ is None or res_[c].dtype == object:
                    continue
                gid_ = res_[f"{g_}_id"] if f"{g_}_id" in res_.columns else data_[f"{g_}_id"] if f"{g_}_id" in data_.columns else None
                if gid_ is None:
                    continue
                nun = res_.groupby(gid_.to_numpy())[c].nunique(dropna=False)
                if (nun > 1).any():
                    bad_api.append(f"index labels {label}, debug={debug}: column {c} has {int(nun.max())} values within one {g_}_id of the returned frame")
    rep.bounded["api_group_constancy"] = {"evaluations": n_api, "distinct_nontrivial": n_api, "rule": "one population of four households x {default, permuted} index labels x debug on/off: every group-suffixed column of the returned frame (default targets, and all computed nodes in debug mode) is constant within the group id column of that frame", "failures": bad_api[:5]}
    for i, b in enumerate(bad_api[:3]):
        rep.violation(f"api-constancy:{i}:{b[:60]}", b, {"what": b, "kind": "bounded stand-in"}, True)
    rep.functions.add("every scalar rule with a group suffix in the default-target DAG (see obligations)")
    rep.samples = rep.obligations[:3] + [o for o in rep.obligations if o["status"] == "refuted"][:2]
    return rep.finish({"date_classes": len(classes), "group_level_node_instances": n_nodes, "distinct_obligations": len(items)})
