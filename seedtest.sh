#!/bin/sh
# seedtest.sh <patch.diff> <prop> [<prop> ...]  -- apply a seeded change to /repo, run the quick checks, undo it
P=$1; shift
git -C /repo apply "$P" || { echo "patch does not apply"; exit 9; }
for c in "$@"; do
  echo "=== $c on $(basename $(dirname $P))"
  /verif/check $c --tier quick 2>&1 | grep -E "^VIOLATION|^UNDECIDED|^\[|CRASH|ENCODER" | cut -c1-300 | head -12
  echo "exit=$?"
done
git -C /repo checkout -- . ; git -C /repo status --short | head -3
