"""E4 `symdate` -- interval execution of the date logic.

IDate is a datetime.date subclass standing for a whole interval [lo, hi] of calendar days. A
comparison with a concrete date answers only if the whole interval agrees, otherwise it raises
NeedSplit(boundary); `.year`, `.replace(year=...)`, `.replace(month=1, day=1)`, `==`, `- timedelta`
are interval-aware (29 February is always isolated as a singleton); every other observation
(`.month`, `.day`, hashing, arithmetic between two intervals, string formatting) raises
UnsupportedObservation unless the interval is a single day. Running the REAL loader on IDate
values and splitting until every interval is answered uniformly yields a finite partition of all
dates with one environment per class -- an exhaustive case analysis driven by the code itself.
"""
from __future__ import annotations

import datetime

ONE = datetime.timedelta(days=1)


class NeedSplit(Exception):
    def __init__(self, boundary, why=""):
        super().__init__(f"split at {boundary} ({why})")
        self.boundary = boundary  # first day of the upper part
        self.why = why


class UnsupportedObservation(Exception):
    pass


def _conc(d):
    return datetime.date(d.year, d.month, d.day)


class IDate(datetime.date):
    def __new__(cls, lo, hi, backs=()):
        obj = datetime.date.__new__(cls, lo.year, lo.month, lo.day)
        obj.lo = _conc(lo) if not isinstance(lo, IDate) else lo.lo
        obj.hi = _conc(hi) if not isinstance(hi, IDate) else hi.hi
        # derived intervals (shifted by years / days) map a split boundary back to the
        # coordinates of the interval the run was started with
        obj.backs = tuple(backs)
        return obj

    def _split(self, boundary, why):
        b = boundary
        for f in reversed(self.backs):
            b = f(b)
        return NeedSplit(b, why)

    # ---- helpers
    @property
    def single(self):
        return self.lo == self.hi

    def _other(self, o):
        if isinstance(o, IDate):
            if o.single:
                return o.lo
            raise UnsupportedObservation("comparison of two date intervals")
        if isinstance(o, datetime.datetime):
            raise UnsupportedObservation("comparison with a datetime")
        if isinstance(o, datetime.date):
            return o
        return None

    # ---- comparisons (self OP concrete)
    def __le__(self, o):
        d = self._other(o)
        if d is None:
            return NotImplemented
        if self.hi <= d:
            return True
        if self.lo > d:
            return False
        raise self._split(d + ONE, f"<= {d}")

    def __lt__(self, o):
        d = self._other(o)
        if d is None:
            return NotImplemented
        if self.hi < d:
            return True
        if self.lo >= d:
            return False
        raise self._split(d, f"< {d}")

    def __ge__(self, o):
        d = self._other(o)
        if d is None:
            return NotImplemented
        if self.lo >= d:
            return True
        if self.hi < d:
            return False
        raise self._split(d, f">= {d}")

    def __gt__(self, o):
        d = self._other(o)
        if d is None:
            return NotImplemented
        if self.lo > d:
            return True
        if self.hi <= d:
            return False
        raise self._split(d + ONE, f"> {d}")

    def __eq__(self, o):
        d = self._other(o)
        if d is None:
            return NotImplemented
        if self.single:
            return self.lo == d
        if d < self.lo or d > self.hi:
            return False
        raise self._split(d if d > self.lo else d + ONE, f"== {d}")

    def __ne__(self, o):
        r = self.__eq__(o)
        return r if r is NotImplemented else not r

    def __hash__(self):
        if self.single:
            return hash(self.lo)
        raise UnsupportedObservation("hash of a date interval")

    # ---- components
    @property
    def year(self):
        if self.lo.year == self.hi.year:
            return self.lo.year
        raise self._split(datetime.date(self.lo.year + 1, 1, 1), ".year")

    @property
    def month(self):
        if self.single:
            return self.lo.month
        raise UnsupportedObservation(".month of a date interval")

    @property
    def day(self):
        if self.single:
            return self.lo.day
        raise UnsupportedObservation(".day of a date interval")

    def replace(self, year=None, month=None, day=None):
        if self.single:
            return _conc(self.lo).replace(**{k: v for k, v in (("year", year), ("month", month), ("day", day)) if v is not None})
        if year is not None and month is None and day is None:
            # shift by whole years: 29 February must be isolated first
            self.year  # noqa: B018  (forces lo.year == hi.year)
            for y in {self.lo.year}:
                try:
                    leap = datetime.date(y, 2, 29)
                except ValueError:
                    leap = None
                if leap is not None and self.lo <= leap <= self.hi:
                    raise self._split(leap if self.lo < leap else leap + ONE, "29 February")
            k = self.lo.year - year

            def back(c, k=k):
                try:
                    return c.replace(year=c.year + k)
                except ValueError:
                    return datetime.date(c.year + k, 3, 1)

            try:
                return IDate(self.lo.replace(year=year), self.hi.replace(year=year), (*self.backs, back))
            except ValueError as ex:
                raise UnsupportedObservation(f"replace(year) on an interval: {ex}") from ex
        if month == 1 and day == 1 and year is None:
            return datetime.date(self.year, 1, 1)
        raise UnsupportedObservation(f"replace({year},{month},{day}) on a date interval")

    def __sub__(self, o):
        if isinstance(o, datetime.timedelta):
            if self.single:
                return _conc(self.lo) - o
            return IDate(self.lo - o, self.hi - o, (*self.backs, lambda c, o=o: c + o))
        if self.single:
            return _conc(self.lo) - o
        raise UnsupportedObservation("difference of date intervals")

    def __add__(self, o):
        if isinstance(o, datetime.timedelta):
            if self.single:
                return _conc(self.lo) + o
            return IDate(self.lo + o, self.hi + o, (*self.backs, lambda c, o=o: c - o))
        return NotImplemented

    __radd__ = __add__

    def __rsub__(self, o):
        if self.single:
            return o - _conc(self.lo)
        raise UnsupportedObservation("difference of date intervals")

    def toordinal(self):
        if self.single:
            return _conc(self.lo).toordinal()
        raise UnsupportedObservation("toordinal of a date interval")

    def isoformat(self):
        if self.single:
            return _conc(self.lo).isoformat()
        raise UnsupportedObservation("isoformat of a date interval")

    def timetuple(self):
        if self.single:
            return _conc(self.lo).timetuple()
        raise UnsupportedObservation("timetuple of a date interval")

    def __repr__(self):
        return f"IDate({self.lo}..{self.hi})"

    __str__ = __repr__

    def __reduce__(self):
        return (IDate, (self.lo, self.hi))  # derived intervals are never pickled

    def __deepcopy__(self, memo):
        return self

    def __copy__(self):
        return self


class Stamp:
    """stand-in for numpy.datetime64(date) (numpy reads the C fields of the date directly)"""

    def __init__(self, d):
        self.d = d

    def __repr__(self):
        return f"Stamp({self.d})"

    def __eq__(self, o):
        return isinstance(o, Stamp)

    def __hash__(self):
        return 0


class _NumpyProxy:
    def __init__(self, real):
        self._real = real

    def __getattr__(self, k):
        return getattr(self._real, k)

    def datetime64(self, d, *a):
        if isinstance(d, IDate):
            return Stamp(d)
        return self._real.datetime64(d, *a)


def partition(lo, hi, run, max_runs=100000):
    """Run `run(IDate)` on [lo, hi], splitting on NeedSplit until every interval is answered.
    -> (classes [(lo, hi, result)], split points {boundary: why}, number of runs)"""
    work = [(lo, hi)]
    classes = []
    splits = {}
    runs = 0
    while work:
        a, b = work.pop()
        runs += 1
        if runs > max_runs:
            raise RuntimeError("too many runs")
        try:
            res = run(IDate(a, b) if a != b else IDate(a, a))
        except NeedSplit as ns:
            c = ns.boundary
            if not (a < c <= b):
                raise RuntimeError(f"split point {c} outside ({a}, {b}]: {ns.why}") from ns
            splits.setdefault(c, ns.why)
            work.append((c, b))
            work.append((a, c - ONE))
            continue
        classes.append((a, b, res))
    classes.sort(key=lambda t: t[0])
    return classes, splits, runs


def install_numpy_stub():
    """substitute numpy.datetime64 in _gettsim.policy_environment (checker process only)"""
    from _gettsim import policy_environment as pe

    if not isinstance(pe.numpy, _NumpyProxy):
        pe.numpy = _NumpyProxy(pe.numpy)
    return pe
