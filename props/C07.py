"""C07 -- the policy environment for a date is exactly the law in force that day.

  E4  the REAL set_up_policy_environment is executed on interval-valued dates (vt/symdate.py) over
      the whole time line 1980-01-01 .. (last entry + 1 year), splitting until every interval is
      answered uniformly: an exhaustive case analysis over ALL calendar days, driven by the code.
      Obligations per class:
        P  for every group, the parameters equal the independent specification
           specs/param_resolution.py evaluated on the raw YAML at both ends of the class (latest
           entry <= date, deviations, prior-date look-ups, rounding specs; piecewise schedules
           against the exact-rational resolution at 1e-9; year-derived values recomputed)
        F  for every column name exactly one implementation is returned and it is the one whose
           [start, end] (read from the decorator in the AST) contains the class
      and globally:
        S  every split point the real code asked for is a declared change date (a date key of a
           parameter file or a decorator bound, +1 day for end dates, +1 year for `vorjahr`),
           1 January (year-derived values) or 29 Feb / 1 Mar -- between two change dates nothing
           changes;   U  no unsupported observation of the date
  E1  small pieces, all dates as integers: is_active_at_date <=> start <= d <= end;
      _check_for_conflicts_in_time_dependent_functions raises <=> the closed intervals intersect
      (given start <= end for both); _validate_date_range
"""
from __future__ import annotations

import ast
import datetime
import inspect
import json
import math
import types
import warnings
from fractions import Fraction

import numpy
import z3

from specs import param_resolution as pr
from specs import piecewise_spec as pws
from vt import env as venv
from vt import par, solve, symdate, symx
from vt.report import ASSUMPTIONS, Report

PARAM_DIR = venv.SRC / "parameters"
FIRST = datetime.date(1980, 1, 1)


# ---------------------------------------------------------------------------------------
def deep_diff(a, b, path=""):
    """list of differences between env value a and expected b"""
    out = []
    if isinstance(b, dict):
        if not isinstance(a, dict):
            return [f"{path}: expected a dict, got {type(a).__name__}"]
        for k in set(a) | set(b):
            if k not in a:
                out.append(f"{path}[{k!r}]: missing in the environment (expected {str(b[k])[:60]})")
            elif k not in b:
                out.append(f"{path}[{k!r}]: not in force according to the yaml (environment has {str(a[k])[:60]})")
            else:
                out.extend(deep_diff(a[k], b[k], f"{path}[{k!r}]"))
        return out
    if isinstance(b, (list, tuple, numpy.ndarray)):
        if len(a) != len(b):
            return [f"{path}: length {len(a)} vs {len(b)}"]
        for i, (x, y) in enumerate(zip(a, b)):
            out.extend(deep_diff(x, y, f"{path}[{i}]"))
        return out
    if isinstance(b, (int, float, numpy.number)) and not isinstance(b, bool) and isinstance(a, (int, float, numpy.number)) and not isinstance(a, bool):
        fa, fb = float(a), float(b)
        if math.isinf(fb) or math.isinf(fa):
            return [] if fa == fb else [f"{path}: {fa} vs {fb}"]
        return [] if abs(fa - fb) <= 1e-9 * max(1.0, abs(fb)) else [f"{path}: environment {a!r}, yaml in force {b!r}"]
    return [] if a == b else [f"{path}: environment {a!r}, yaml in force {b!r}"]


def expected_group(group, date, params_all=None):
    """environment a correct loader must produce for `group` at `date` (after piecewise parsing)"""
    vals = pr.group_values(PARAM_DIR, group, date)
    out = {}
    for k, v in vals.items():
        if isinstance(v, dict) and str(v.get("type", "")).startswith("piecewise"):
            out[k] = ("piecewise", pws.resolve(v))
        elif isinstance(v, dict) and k != "rounding":
            out[k] = {kk: vv for kk, vv in v.items() if kk not in ("type", "progressionsfaktor")}
        else:
            out[k] = v
    return out


def check_class(lo, hi, params):
    """-> list of (obligation, ok, detail)"""
    res = []
    for rep_date in sorted({lo, hi}):
        for group, env_g in params.items():
            exp = expected_group(group, rep_date)
            diffs = []
            derived = set()
            if group == "kinderzuschl" and 2021 <= rep_date.year < 2023:
                derived.add("maximum")
            if group == "eink_st_abzuege" and rep_date.year >= 2005:
                derived |= {"einführungsfaktor_vorsorgeaufw_alter_ab_2005", "vorsorgepauschale_rentenv_anteil"}
            for k in set(env_g) | set(exp):
                if k == "datum" or k in derived:
                    continue
                if k not in env_g:
                    diffs.append(f"[{k!r}]: in force according to the yaml but missing in the environment")
                    continue
                if k not in exp:
                    diffs.append(f"[{k!r}]: in the environment ({str(env_g[k])[:50]}) but no entry is in force")
                    continue
                e = exp[k]
                if isinstance(e, tuple) and e[0] == "piecewise":
                    a = env_g[k]
                    if not (isinstance(a, dict) and {"thresholds", "rates", "intercepts_at_lower_thresholds"} <= set(a)):
                        diffs.append(f"[{k!r}]: piecewise parameter not parsed")
                        continue
                    spec = e[1]
                    got = pws.from_arrays(a["thresholds"], a["rates"], a["intercepts_at_lower_thresholds"])
                    for nm in ("thresholds", "intercepts"):
                        diffs.extend(deep_diff([float(x) for x in got[nm]], [float(x) for x in spec[nm]], f"[{k!r}].{nm}"))
                    diffs.extend(deep_diff([[float(x) for x in r] for r in got["rates"]], [[float(x) for x in r] for r in spec["rates"]], f"[{k!r}].rates"))
                else:
                    diffs.extend(deep_diff(env_g[k], e, f"[{k!r}]"))
            # year-derived values
            try:
                if group == "kinderzuschl" and "maximum" in derived:
                    kz = exp.get("existenzminimum")
                    kg = expected_group("kindergeld", rep_date).get("kindergeld")
                    want = (kz["regelsatz"]["kinder"] + kz["kosten_der_unterkunft"]["kinder"] + kz["heizkosten"]["kinder"]) / 12 - kg[1]
                    diffs.extend(deep_diff(env_g.get("maximum"), want, "['maximum'] (derived from the subsistence levels)"))
                if group == "eink_st_abzuege" and rep_date.year >= 2005:
                    for key, src in (("einführungsfaktor_vorsorgeaufw_alter_ab_2005", "einführungsfaktor"), ("vorsorgepauschale_rentenv_anteil", None)):
                        srcv = exp.get(src) if src else pr.value(PARAM_DIR, group, key, rep_date)
                        if src is None:
                            srcv = ("piecewise", pws.resolve(srcv)) if isinstance(srcv, dict) else None
                        if srcv and srcv[0] == "piecewise":
                            want = float(pws.evaluate(srcv[1], Fraction(rep_date.year)))
                            diffs.extend(deep_diff(env_g.get(key), want, f"[{key!r}] (schedule evaluated at the year)"))
            except Exception as ex:  # noqa: BLE001
                diffs.append(f"derived values: {ex!r}")
            res.append((f"P {group}", not diffs, "; ".join(diffs[:3]), str(rep_date)))
    return res


# ---------------------------------------------------------------------------------------
def decorator_table():
    """{dag name: [(function name, start, end)]} from the AST of every rule module"""
    out = {}
    from _gettsim.config import PATHS_TO_INTERNAL_FUNCTIONS

    files = []
    for p in PATHS_TO_INTERNAL_FUNCTIONS:
        files.extend(sorted(p.rglob("*.py")) if p.is_dir() else [p])
    for p in files:
        tree = ast.parse(p.read_text(encoding="utf-8"))
        for node in tree.body:
            if not isinstance(node, ast.FunctionDef):
                continue
            start, end, name = datetime.date(1, 1, 1), datetime.date(9999, 12, 31), node.name
            deco = False
            for d in node.decorator_list:
                if isinstance(d, ast.Call) and getattr(d.func, "id", None) == "policy_info":
                    deco = True
                    for kw in d.keywords:
                        if kw.arg == "start_date":
                            start = datetime.date.fromisoformat(kw.value.value)
                        elif kw.arg == "end_date":
                            end = datetime.date.fromisoformat(kw.value.value)
                        elif kw.arg == "name_in_dag" and isinstance(kw.value, ast.Constant) and kw.value.value:
                            name = kw.value.value
            out.setdefault(name, []).append((node.name, start, end, deco))
    return out


def check_functions(lo, hi, functions, table):
    res = []
    bad = []
    for name, impls in table.items():
        active = [i for i in impls if i[1] <= lo and hi <= i[2]]
        partial = [i for i in impls if not (i[1] <= lo and hi <= i[2]) and not (i[2] < lo or i[1] > hi)]
        if partial:
            bad.append(f"{name}: implementation {partial[0][0]} is active on part of the class only")
        if len(active) > 1:
            bad.append(f"{name}: {len(active)} implementations in force ({[a[0] for a in active]})")
        f = functions.get(name)
        if len(active) == 1:
            if f is None or inspect.unwrap(f).__name__ != active[0][0]:
                bad.append(f"{name}: environment has {getattr(f, '__name__', None)}, in force is {active[0][0]}")
        elif not active and f is not None:
            bad.append(f"{name}: environment has {f.__name__} but no implementation is in force")
    extra = set(functions) - set(table)
    if extra:
        bad.append(f"functions not found in the rule modules: {sorted(extra)[:5]}")
    res.append(("F exactly the implementation in force for every column name", not bad, "; ".join(bad[:3]), str(lo)))
    return res


def _chunk_worker(job):
    lo, hi = job
    from _gettsim.policy_environment import set_up_policy_environment

    symdate.install_numpy_stub()
    table = decorator_table()

    def run(d):
        with warnings.catch_warnings():
            warnings.simplefilter("ignore")
            return set_up_policy_environment(d)

    out = {"classes": [], "splits": {}, "runs": 0, "obl": [], "unsupported": []}
    try:
        classes, splits, runs = symdate.partition(lo, hi, run)
    except symdate.UnsupportedObservation as ex:
        out["unsupported"].append(f"[{lo},{hi}]: {ex}")
        return out
    out["runs"] = runs
    out["splits"] = {str(k): v for k, v in splits.items()}
    declared = declared_change_points()

    def is_declared(d):
        return d in declared or (d.month == 1 and d.day == 1) or (d.month == 2 and d.day == 29) or (d.month == 3 and d.day == 1)

    out["effective_undeclared"] = []
    for (a0, b0, (p0, f0)), (a1, b1, (p1, f1)) in zip(classes, classes[1:]):
        if is_declared(a1):
            continue
        # an undeclared split point is harmless only if the environment is the same on both sides
        diffs = []
        for g in set(p0) | set(p1):
            x = {k: v for k, v in p0.get(g, {}).items() if k != "datum"}
            y = {k: v for k, v in p1.get(g, {}).items() if k != "datum"}
            diffs.extend(deep_diff(x, y, g))
        if {k: inspect.unwrap(v) for k, v in f0.items()} != {k: inspect.unwrap(v) for k, v in f1.items()}:
            diffs.append("set of active implementations differs")
        out["n_harmless_splits"] = out.get("n_harmless_splits", 0) + (0 if diffs else 1)
        if diffs:
            out["effective_undeclared"].append((str(a1), splits.get(a1, ""), diffs[:3]))
    for a, b, (params, functions) in classes:
        out["classes"].append((str(a), str(b)))
        for name, ok, detail, dd in check_class(a, b, params) + check_functions(a, b, functions, table):
            out["obl"].append((name, ok, detail, dd, str(a), str(b)))
    return out


# ---------------------------------------------------------------------------------------
def small_pieces(rep):
    from _gettsim import policy_environment as pe
    from _gettsim import shared

    where = "src/_gettsim/policy_environment.py:255 is_active_at_date"
    s, e, d, s2, e2 = z3.Ints("start end date start2 end2")

    def N(t):
        return symx.Num([(symx.TRUE, t, "int")])

    # is_active_at_date
    try:
        f = types.SimpleNamespace(__info__={"start_date": N(s), "end_date": N(e)})
        ex = symx.Executor()
        fr = ex.call_function(pe.is_active_at_date, {"f": f, "date": N(d)})
        res = symx._b(ex.truthy(ex.result_of(fr)))
        r = solve.check([res != z3.And(s <= d, d <= e)], 10)
        rep.ob("E1 is_active_at_date(f, d) <=> start <= d <= end (both bounds inclusive)", {"unsat": "discharged", "sat": "refuted"}.get(r.status, "unknown"), r.backend, r.seconds, where, "contract")
        if r.status == "sat":
            m = r.model
            vals = {k: m.eval(v, model_completion=True).as_long() for k, v in (("start", s), ("end", e), ("date", d))}
            base = datetime.date(2000, 1, 1).toordinal()
            dd = {k: datetime.date.fromordinal(base + v) for k, v in vals.items()}
            g = types.SimpleNamespace(__info__={"start_date": dd["start"], "end_date": dd["end"]})
            got = pe.is_active_at_date(g, dd["date"])
            rep.violation("is_active_at_date", f"is_active_at_date with validity {dd['start']}..{dd['end']} on {dd['date']} returns {got}", {"obligation": "E1 is_active_at_date", **{k: str(v) for k, v in dd.items()}, "got": got}, got != (dd["start"] <= dd["date"] <= dd["end"]))
    except (symx.Unsupported, symx.PathAbort) as ex_:
        rep.ob("E1 is_active_at_date", "unsupported", "z3", 0, where, "contract", str(ex_))
    # conflict check
    where2 = "src/_gettsim/shared.py:122 _check_for_conflicts_in_time_dependent_functions"
    try:
        other = types.SimpleNamespace(__name__="other_impl", __info__={"start_date": N(s2), "end_date": N(e2)})
        ex = symx.Executor()
        fn = inspect.unwrap(shared._check_for_conflicts_in_time_dependent_functions)
        fr = ex.call_function(fn, {"dag_key": "k", "function_name": "this_impl", "start": N(s), "end": N(e)}, extra_globals={"TIME_DEPENDENT_FUNCTIONS": {"k": [other]}})
        raised = symx.mk_or(*[g for g, _, _ in fr.raises])
        overlap = z3.And(z3.If(s >= s2, s, s2) <= z3.If(e <= e2, e, e2))
        r = solve.check([s <= e, s2 <= e2, raised != overlap], 10)
        rep.ob("E1 registering an implementation raises <=> its closed validity interval intersects another implementation's", {"unsat": "discharged", "sat": "refuted"}.get(r.status, "unknown"), r.backend, r.seconds, where2, "contract")
        if r.status == "sat":
            m = r.model
            base = datetime.date(2000, 1, 1).toordinal()
            dd = {k: datetime.date.fromordinal(base + m.eval(v, model_completion=True).as_long()) for k, v in (("start", s), ("end", e), ("start2", s2), ("end2", e2))}
            saved = dict(shared.TIME_DEPENDENT_FUNCTIONS)
            try:
                shared.TIME_DEPENDENT_FUNCTIONS["verif_key"] = [types.SimpleNamespace(__name__="other_impl", __info__={"start_date": dd["start2"], "end_date": dd["end2"]})]
                try:
                    shared._check_for_conflicts_in_time_dependent_functions("verif_key", "this_impl", dd["start"], dd["end"])
                    got = False
                except shared.ConflictingTimeDependentFunctionsError:
                    got = True
            finally:
                shared.TIME_DEPENDENT_FUNCTIONS.clear()
                shared.TIME_DEPENDENT_FUNCTIONS.update(saved)
            want = max(dd["start"], dd["start2"]) <= min(dd["end"], dd["end2"])
            rep.violation("conflict-check", f"implementations valid {dd['start']}..{dd['end']} and {dd['start2']}..{dd['end2']}: overlap check {'raises' if got else 'accepts'}, intervals {'intersect' if want else 'are disjoint'}", {"obligation": "E1 conflict check", **{k: str(v) for k, v in dd.items()}, "raised": got}, got != want)
    except (symx.Unsupported, symx.PathAbort) as ex_:
        rep.ob("E1 conflict check", "unsupported", "z3", 0, where2, "contract", str(ex_))


def _scribble(obj, seen=None):
    """overwrite, in place, every mutable object reachable from an environment"""
    seen = seen if seen is not None else set()
    if id(obj) in seen:
        return 0
    seen.add(id(obj))
    n = 0
    if isinstance(obj, dict):
        for k in list(obj):
            v = obj[k]
            n += _scribble(v, seen)
            if isinstance(v, bool):
                obj[k] = not v
            elif isinstance(v, (int, float)):
                obj[k] = v + 1000
            n += 1
    elif isinstance(obj, list):
        for i, v in enumerate(obj):
            n += _scribble(v, seen)
            if isinstance(v, (int, float)) and not isinstance(v, bool):
                obj[i] = v + 1000
                n += 1
    elif isinstance(obj, numpy.ndarray):
        if obj.flags.writeable and obj.dtype.kind in "fi":
            obj += 1000
            n += obj.size
    return n


def yaml_keys_wellformed(rep):
    """Y: no entry of a parameter file is silently ignored because its key merely LOOKS like a date:
    the loader keeps only keys that YAML parsed as dates (`2025-4-01` is a string and would be dropped).
    Exhaustive over every mapping of every parameter file."""
    import re

    import yaml

    datelike = re.compile(r"^\s*\d{4}\s*[-/.]\s*\d{1,2}\s*[-/.]\s*\d{1,2}\s*$")
    bad = []
    n = 0

    def walk(node, path):
        nonlocal n
        if isinstance(node, dict):
            for k, v in node.items():
                n += 1
                if isinstance(k, str) and datelike.match(k):
                    bad.append(f"{path}: key {k!r} is a string, not a date")
                elif isinstance(k, datetime.datetime):
                    bad.append(f"{path}: key {k!r} is a timestamp, not a date")
                walk(v, f"{path}[{k!r}]")
        elif isinstance(node, list):
            for i, v in enumerate(node):
                walk(v, f"{path}[{i}]")

    for f in sorted(PARAM_DIR.glob("*.yaml")):
        walk(yaml.load(f.read_text(encoding="utf-8"), Loader=yaml.CLoader), f.name)
    rep.ob(f"Y every date-like key of the parameter files is a date ({n} keys): no entry is dropped by the loader's isinstance(key, date) filter", "refuted" if bad else "discharged", "exhaustive-run", 0, "src/_gettsim/parameters/*.yaml", "yaml", "; ".join(bad[:3]))
    for b in bad[:5]:
        rep.violation(f"yaml-key:{b[:80]}", f"{b}: the entry is ignored by _load_parameter_group_from_yaml, the previous entry stays in force from that day on", {"obligation": "Y", "what": b}, True)


def timeline_holes(rep):
    """G: between two consecutive dated implementations of a column name there is no day without an
    implementation on which some rule in force still reads that column (and it is not a documented
    input): on such a day "exactly the one implementation whose validity interval contains the date"
    does not exist although the law in force needs it."""
    from _gettsim.config import TYPES_INPUT_VARIABLES
    from _gettsim.policy_environment import load_functions_for_date

    table = decorator_table()
    one = datetime.timedelta(days=1)
    documented = set(TYPES_INPUT_VARIABLES) | venv.documented_inputs()
    n = 0
    bad = []
    for name, impls in sorted(table.items()):
        iv = sorted((s_, e_, q_) for q_, s_, e_, _ in impls)
        for (s1, e1, q1), (s2, e2, q2) in zip(iv, iv[1:]):
            n += 1
            if e1 + one >= s2:
                continue
            day = e1 + one
            with warnings.catch_warnings():
                warnings.simplefilter("ignore")
                fs = load_functions_for_date(day)
            readers = sorted(fn for fn, f in fs.items() if name in inspect.signature(inspect.unwrap(f)).parameters)
            if name not in fs and name not in documented and readers:
                bad.append(f"{name}: {q1} ends {e1}, {q2} starts {s2}; from {day} to {s2 - one} nothing implements the column while {readers[:3]} read it")
    rep.ob(f"G no hole in the timeline of a column that rules in force read ({n} consecutive pairs of dated implementations)", "refuted" if bad else "discharged", "exhaustive-run", 0, "decorators of src/_gettsim/**/*.py", "timeline", "; ".join(bad[:3]))
    for b in bad[:5]:
        rep.violation(f"timeline-hole:{b.split(':')[0]}", b, {"obligation": "G", "what": b}, True)


def date_forms(rep):
    """D: the environment depends on the DAY asked for, not on how the day is written: ISO strings (also with
    day <= 12 and day != month), date objects and year integers give the same date stamp"""
    from _gettsim.policy_environment import _parse_date

    bad = []
    n = 0
    for y, m_, d_ in ((2019, 7, 1), (2015, 6, 23), (2022, 10, 1), (2005, 1, 12), (2024, 12, 3), (2020, 2, 29)):
        want = datetime.date(y, m_, d_)
        for form in (f"{y:04d}-{m_:02d}-{d_:02d}", want, datetime.datetime(y, m_, d_)):
            n += 1
            try:
                got = _parse_date(form)
                got = got.date() if isinstance(got, datetime.datetime) else got
            except Exception as ex:  # noqa: BLE001
                got = repr(ex)
            if got != want:
                bad.append(f"{form!r} -> {got}")
    n += 1
    try:
        if _parse_date(2021) != datetime.date(2021, 1, 1):
            bad.append(f"2021 -> {_parse_date(2021)}")
    except Exception as ex:  # noqa: BLE001
        bad.append(f"2021 -> {ex!r}")
    rep.ob(f"D a day is the same day however it is written ({n} forms: ISO strings, date, datetime, year)", "refuted" if bad else "discharged", "exhaustive-run", 0, "src/_gettsim/policy_environment.py _parse_date", "date-forms", "; ".join(bad[:4]))
    for b in bad[:3]:
        rep.violation(f"date-form:{b[:40]}", f"_parse_date({b.split(' -> ')[0]}) gives {b.split(' -> ')[1]}: set_up_policy_environment returns the law of another day", {"obligation": "D", "what": b}, True)


def history_independence(rep, tier):
    """H: the environment is a function of the date alone -- after every mutable object reachable from
    previously returned environments (same day, next day, a year earlier) has been overwritten in
    place, a new set-up for the day still equals the specification (nothing returned earlier is
    shared with what is returned later). Deterministic sequence on the real loader."""
    from _gettsim.policy_environment import set_up_policy_environment

    days = [datetime.date(2022, 3, 1), datetime.date(2005, 3, 1)] if tier == "quick" else [datetime.date(2022, 3, 1), datetime.date(2005, 3, 1), datetime.date(2015, 1, 1), datetime.date(2021, 7, 1), datetime.date(2024, 1, 1), datetime.date(1999, 12, 31)]
    for d in days:
        bad = []
        n = 0
        with warnings.catch_warnings():
            warnings.simplefilter("ignore")
            for prev in (d, d + datetime.timedelta(days=1), d.replace(year=d.year - 1)):
                p1, _ = set_up_policy_environment(prev)
                n += _scribble(p1)
            p2, _ = set_up_policy_environment(d)
        bad = [x for x in check_class(d, d, p2) if not x[1]]
        rep.ob(f"H environment of {d} equals the specification after {n} values of earlier environments were overwritten in place", "refuted" if bad else "discharged", "exhaustive-run", 0, "src/_gettsim/policy_environment.py:21 set_up_policy_environment", "history", "; ".join(f"{x[0]}: {x[2]}" for x in bad[:3]))
        if bad:
            rep.violation(f"history:{d}", f"set_up_policy_environment({d}) after in-place edits of earlier environments (same day, next day, a year before) differs from the law in force: " + "; ".join(f"{x[0]}: {x[2]}" for x in bad[:3]),
                          {"obligation": "H", "date": str(d), "replay": "history", "differences": [f"{x[0]}: {x[2]}" for x in bad[:10]]}, True)


def declared_change_points():
    ds = set(venv.yaml_dates()) | set(venv.decorator_dates())
    out = set(ds)
    for d in ds:
        try:
            out.add(d.replace(year=d.year + 1))
        except ValueError:
            out.add(d.replace(year=d.year + 1, day=28))
            out.add(datetime.date(d.year + 1, 3, 1))
    return out


def replay(path):
    rp = json.loads(open(path).read())
    if rp.get("replay") == "history":
        r2 = Report("C07", "replay", 0, "proof")
        history_independence(r2, "thorough")
        bad = [o for o in r2.obligations if o["status"] != "discharged"]
        print(json.dumps({"differences": [o["detail"] for o in bad]}, indent=1))
        return 1 if bad else 0
    if "date" in rp and "group" in rp:
        from _gettsim.policy_environment import set_up_policy_environment

        d = datetime.date.fromisoformat(rp["date"])
        with warnings.catch_warnings():
            warnings.simplefilter("ignore")
            params, functions = set_up_policy_environment(d)
        res = [x for x in check_class(d, d, {rp["group"]: params[rp["group"]]}) if not x[1]]
        print(json.dumps({"date": rp["date"], "group": rp["group"], "differences": [x[2] for x in res]}, indent=1, default=str))
        return 1 if res else 0
    print(json.dumps(rp, indent=1))
    return 0


def run(tier="quick", seed=0, jobs=16):
    rep = Report("C07", tier, seed, "proof")
    rep.assumptions = ["the interval date (vt/symdate.py) is sound: it answers an observation only if every day of the interval gives the same answer, every other observation raises",
                       "numpy.datetime64(date) in policy_environment is replaced by an opaque stamp in the checker process (numpy reads the C fields of the date); the date stamp `datum` is excluded from the comparison",
                       "specification of the law in force: specs/param_resolution.py (from GEP-3 and the yaml layout) and specs/piecewise_spec.py; float comparison at 1e-9 relative",
                       ASSUMPTIONS["A1"] + " (only in the E1 obligations; dates as integers)"]
    rep.trusted = ["yaml.CLoader", "copy.deepcopy", "CPython datetime", "z3 5.1.0", "E1 encoder"]
    small_pieces(rep)
    yaml_keys_wellformed(rep)
    timeline_holes(rep)
    date_forms(rep)
    history_independence(rep, tier)
    last = venv.last_parameter_date()
    end = last.replace(year=last.year + 1)
    # one job per calendar year keeps the workers busy; classes never span 1 January anyway
    jobs_list = []
    y = FIRST.year
    while datetime.date(y, 1, 1) <= end:
        jobs_list.append((datetime.date(y, 1, 1), min(datetime.date(y, 12, 31), end)))
        y += 1
    results = par.pmap(_chunk_worker, jobs_list, jobs)
    declared = declared_change_points()
    n_classes = 0
    runs = 0
    all_splits = {}
    bad_by_key = {}
    n_ok = 0
    for st, job, res in results:
        if st != "ok":
            raise RuntimeError(res)
        for u in res["unsupported"]:
            rep.ob(f"U no unsupported observation of the date {u[:80]}", "unsupported", "E4", 0, "src/_gettsim/policy_environment.py", "interval-exec", u)
        n_classes += len(res["classes"])
        runs += res["runs"]
        all_splits.update(res["splits"])
        for name, ok, detail, dd, a, b in res["obl"]:
            if ok:
                n_ok += 1
            else:
                bad_by_key.setdefault((name, detail), []).append((dd, a, b))
    rep.add_counts(n_ok, "E4-exhaustive", 0.0, "P/F per class")
    for (name, detail), occ in sorted(bad_by_key.items()):
        dd, a, b = occ[0]
        rep.ob(f"{name} @ class {a}..{b}", "refuted", "E4-exhaustive", 0, "src/_gettsim/policy_environment.py", "env-vs-spec", detail)
        grp = name[2:] if name.startswith("P ") else None
        rep.violation(f"{name}:{detail[:90]}", f"environment of {dd} (class {a}..{b}, {len(occ)} class ends affected): {detail}", {"date": dd, "group": grp, "detail": detail, "classes": occ[:10], "obligation": name}, True)
    # S: split points
    undeclared = []
    harmless = 0
    for st, job, res in results:
        undeclared.extend(res.get("effective_undeclared", []))
        harmless += res.get("n_harmless_splits", 0)
    rep.ob(f"S between two declared change dates (yaml keys, decorator bounds, 1 January, 29 Feb/1 Mar) the environment does not change: {len(all_splits)} split points requested by the loader, {harmless} of them undeclared but with identical environments on both sides", "refuted" if undeclared else "discharged", "E4-exhaustive", 0, "src/_gettsim/policy_environment.py", "split-points", str(undeclared[:5]))
    for s_, why, diffs in undeclared[:5]:
        rep.violation(f"undeclared-date-dependence:{s_}", f"the environment changes at {s_} although no parameter entry or rule validity bound is dated there (the loader compared the date: {why}): {diffs}", {"obligation": "S", "date": s_, "why": why, "differences": diffs, "replay": f"compare set_up_policy_environment on {s_} and the day before"}, True)
    rep.functions |= {"src/_gettsim/policy_environment.py:21 set_up_policy_environment", "src/_gettsim/policy_environment.py:259 _load_parameter_group_from_yaml", "src/_gettsim/policy_environment.py:421 _load_rounding_parameters", "src/_gettsim/policy_environment.py:225 load_functions_for_date",
                      "src/_gettsim/policy_environment.py:80 _parse_piecewise_parameters", "src/_gettsim/policy_environment.py:115-222 _parse_kinderzuschl_max / _parse_einführungsfaktor / _parse_vorsorgepauschale", "src/_gettsim/policy_environment.py:255 is_active_at_date", "src/_gettsim/shared.py:122 _check_for_conflicts_in_time_dependent_functions"}
    rep.samples = rep.obligations[:3] + [{"class_example": "every class is (first day, last day); e.g. " + str(jobs_list[0])}]
    return rep.finish({"date_classes": n_classes, "loader_runs": runs, "split_points": len(all_splits), "time_line": [str(FIRST), str(end)], "exhaustive": True})
