"""C06 -- a reform changes only what depends on it (reform locality).

Locality follows from four contracts, each checked on the real code:
  L1  every rule / kernel / converter is pure and reads no module-level mutable object (E3):
      parameters can reach a rule only through its `<group>_params` arguments
  L2  partial wiring (exhaustive over the real function universe of every function-set class, the
      real _round_and_partial_parameters_to_functions run with a recording stub for
      functools.partial): function f receives exactly {a: params[a[:-7]] for its `*_params`
      arguments a} -- the very objects of the caller's dict, nothing from another group
  L3  the loader hands out fresh objects: set_up_policy_environment is not memoised, its result
      does not reach module-level state; _load_functions merges sources by name into a fresh
      dict and writes none of its arguments (E3)
  L4  dependence bound: uses(g) = {f : g_params in args(f)} + {f : rounding key of f = g}; a column
      outside descendants(uses(g)) (real DAG) has no path from g (graph fact)
Bounded stand-in (never counted as proved): perturb every parameter group / replace functions by
user functions and compare all columns outside the descendant set bit-for-bit; an identical copy
of a function or a deep copy of the parameters changes nothing; the baseline is unchanged after a
reform run (history).
"""
from __future__ import annotations

import ast
import copy
import functools
import importlib
import inspect
import json
import types

import networkx as nx
import numpy

from vt import apirel, env as venv, frame, par, popgen
from vt.report import ASSUMPTIONS, Report

RULE_PREFIXES = ("_gettsim.taxes", "_gettsim.transfers", "_gettsim.social_insurance_contributions", "_gettsim.demographic_vars")


def frame_part(rep):
    an = frame.Analyzer(str(venv.SRC))
    # L1
    n = 0
    bad = []
    for (mname, q), eff in an.effects.items():
        if not mname.startswith(RULE_PREFIXES) or ".<locals>." in q or q == "_add_grouping_suffixes_to_keys":
            continue
        n += 1
        w = [x for x in eff.writes if not x.startswith("outer:")]
        m = an.modules[mname]
        fn = m.functions[q]
        params = {a.arg for a in fn.args.args + fn.args.kwonlyargs}
        mutable_globals = []
        for node in ast.walk(fn):
            if isinstance(node, ast.Name) and isinstance(node.ctx, ast.Load) and node.id in m.globals and node.id not in params:
                # a module-level name read inside a rule: only immutable constants are harmless
                for st in m.tree.body:
                    if isinstance(st, (ast.Assign, ast.AnnAssign)):
                        tgts = st.targets if isinstance(st, ast.Assign) else [st.target]
                        if any(isinstance(t, ast.Name) and t.id == node.id for t in tgts) and isinstance(st.value, (ast.Dict, ast.List, ast.Set, ast.Call)):
                            mutable_globals.append(node.id)
        if w or mutable_globals or eff.unknown_calls:
            bad.append((f"{mname}.{q}", w, mutable_globals, sorted(eff.unknown_calls)))
    rep.add_counts(n - len(bad), "E3", 0.0, "L1 rules pure, parameters only through arguments")
    for name, w, mg, unk in bad:
        st = "refuted" if (w or mg) else "unknown"
        rep.ob(f"L1 {name} is pure and reads parameters only through its arguments", st, "E3", 0, name, "frame", f"writes {w}; module-level mutable objects read {mg}; unknown calls {unk}")
        if st == "refuted":
            rep.violation(f"impure-rule:{name}", f"{name}: writes {w}; reads module-level mutable objects {mg}", {"obligation": "L1", "rule": name}, False)
    # L3
    for key in (("_gettsim.policy_environment", "set_up_policy_environment"), ("_gettsim.policy_environment", "_load_parameter_group_from_yaml"), ("_gettsim.functions_loader", "_load_functions"), ("_gettsim.functions_loader", "load_and_check_functions"), ("_gettsim.interface", "_round_and_partial_parameters_to_functions")):
        if key not in an.effects:
            rep.ob(f"L3 {key[1]} exists", "unsupported", "E3", 0, key[0], "frame")
            continue
        eff = an.effects[key]
        glob = sorted(r for r in (eff.ret | eff.ret_reach) if r.startswith("global:") and "TYPES_INPUT" not in r and not r.endswith("_time_conversion_functions"))
        w = sorted(x for x in eff.writes if x.startswith(("param:", "global:", "unknown")))
        memo_chain = [k for k in _reachable(an, key) if an.effects[k].memo]
        ok = not w and not memo_chain
        detail = f"writes {w}; memoised callees {[k[1] for k in memo_chain]}; result may reach {glob}"
        rep.ob(f"L3 {key[1]} writes none of its arguments / no module state and calls nothing memoised", "discharged" if ok else "refuted", "E3", 0, key[0], "frame", detail)
        rep.functions.add(f"{key[0]}:{key[1]}")
        if not ok:
            rep._locality_frame.append((f"{key[1]}:{'+'.join(w) or 'memo'}", f"{key[1]}: {detail}"))


def _reachable(an, key):
    seen, stack = set(), [key]
    while stack:
        k = stack.pop()
        if k in seen or k not in an.effects:
            continue
        seen.add(k)
        stack.extend(an.effects[k].calls)
    return seen


def _wiring_worker(dates):
    from _gettsim import interface

    out = {"n": 0, "bad": []}
    for d in dates:
        e = venv.Env(d)
        fno, fo = e.universe()
        rec = {}
        saved = interface.functools

        class _FT:
            def __getattr__(self, k):
                return getattr(functools, k)

            @staticmethod
            def partial(f, **kw):
                p = functools.partial(f, **kw)
                rec[id(p)] = (f, kw)
                return p

        try:
            interface.functools = _FT()
            params = {g: {"__marker__": g} for g in e.params}
            processed = interface._round_and_partial_parameters_to_functions(fno, params, rounding=False)
        finally:
            interface.functools = saved
        for name, f in fno.items():
            want = {a: params[a[:-7]] for a in inspect.signature(f).parameters if a.endswith("_params") and a[:-7] in params}
            got = rec.get(id(processed[name]), (None, {}))[1] if processed[name] is not f else {}
            out["n"] += 1
            if set(got) != set(want) or any(got[k] is not want[k] for k in want):
                out["bad"].append(f"{d}: {name}: partialled {sorted(got)} with groups {[v.get('__marker__') for v in got.values()]}, expected {sorted(want)}")
    return out


def users_of_group(env, g, fno):
    out = set()
    for name, f in fno.items():
        if f"{g}_params" in inspect.signature(f).parameters:
            out.add(name)
        info = getattr(f, "__info__", None) or {}
        if info.get("params_key_for_rounding") == g:
            out.add(name)
    return out


def bounded(rep, tier, seed):
    n_eval = 0
    distinct = set()
    bad = []
    dates = ["2023-07-01"] if tier == "quick" else ["2015-01-01", "2019-07-01", "2023-07-01", "2024-01-01"]
    for d in dates:
        e = venv.Env(d)
        pop = popgen.population(["family", "single_parent", "pensioners", "single"], year=int(d[:4]), seed=seed)
        nodes = apirel.function_nodes(e, None, list(pop.columns))
        base, _ = apirel.simulate(e, pop, targets=nodes)
        dag = e.dag(data_cols=list(pop.columns))
        fno, _ = e.universe(None, list(pop.columns))
        n_eval += 1
        # groups
        for g in e.params:
            users = users_of_group(e, g, fno) & set(dag.nodes)
            desc = set(users)
            for u in users:
                desc |= nx.descendants(dag, u)
            p2 = copy.deepcopy(e.params)
            _perturb(p2[g])
            try:
                res, _ = apirel.simulate(e, pop, targets=nodes, params=p2)
            except Exception as ex:  # noqa: BLE001
                continue  # a perturbed schedule may be rejected loudly; that is not a locality issue
            n_eval += 1
            distinct.add((d, "group", g))
            outside = [c for c in nodes if c not in desc]
            diff = apirel.compare_frames(base, res, outside)
            if diff:
                bad.append({"what": f"{d}: perturbing parameter group {g} changes columns that do not depend on it: {diff[:5]}", "date": d, "group": g, "kind": "group"})
        # deep copy of the parameters / identical copy of a function
        res, _ = apirel.simulate(e, pop, targets=nodes, params=copy.deepcopy(e.params))
        n_eval += 1
        if apirel.compare_frames(base, res, nodes):
            bad.append({"what": f"{d}: a deep copy of the parameters changes {apirel.compare_frames(base, res, nodes)[:5]}", "date": d, "kind": "deepcopy"})
        rules_in_dag = [n for n in nodes if venv.classify_node(n, fno[n]) == "scalar_rule"]
        sample = rules_in_dag[:: max(1, len(rules_in_dag) // (8 if tier == "quick" else 30))]
        for name in sample:
            f = e.functions.get(name)
            if f is None:
                continue
            f0 = inspect.unwrap(f)
            clone = types.FunctionType(f0.__code__, f0.__globals__, f0.__name__, f0.__defaults__, f0.__closure__)
            clone.__annotations__ = dict(f0.__annotations__)
            clone.__kwdefaults__ = f0.__kwdefaults__
            if hasattr(f, "__info__"):
                clone.__info__ = dict(f.__info__)
            res, _ = apirel.simulate(e, pop, targets=nodes, functions=[e.functions, {name: clone}])
            n_eval += 1
            distinct.add((d, "clone", name))
            diff = apirel.compare_frames(base, res, nodes)
            if diff:
                bad.append({"what": f"{d}: replacing {name} by an identical copy changes {diff[:5]}", "date": d, "kind": "clone", "function": name})
            # a user function that adds 1 (same signature)
            ty = f0.__annotations__.get("return")
            if ty in (float, "float"):
                src = f"def {name}({', '.join(inspect.signature(f0).parameters)}):\n    return __orig({', '.join(k + '=' + k for k in inspect.signature(f0).parameters)}) + 1.0\n"
                ns = {"__orig": f0}
                exec(src, ns)  # noqa: S102
                newf = ns[name]
                newf.__annotations__ = dict(f0.__annotations__)
                try:
                    res, _ = apirel.simulate(e, pop, targets=nodes, functions=[e.functions, {name: newf}], rounding=False)
                    base_nr, _ = apirel.simulate(e, pop, targets=nodes, rounding=False)
                except Exception:  # noqa: BLE001
                    continue
                n_eval += 2
                distinct.add((d, "replace", name))
                desc = nx.descendants(dag, name) | {name}
                diff = apirel.compare_frames(base_nr, res, [c for c in nodes if c not in desc])
                if diff:
                    bad.append({"what": f"{d}: replacing {name} by a user function changes columns outside its descendants: {diff[:5]}", "date": d, "kind": "replace", "function": name})
                # history: the baseline after the reform run
                again, _ = apirel.simulate(e, pop, targets=nodes)
                n_eval += 1
                if apirel.compare_frames(base, again, nodes):
                    bad.append({"what": f"{d}: after a run that replaced {name}, the baseline (same params and functions objects) gives different {apirel.compare_frames(base, again, nodes)[:5]}", "date": d, "kind": "history", "function": name})
        # a reform module handed over as a FILE that defines one new column and merely imports an internal
        # rule (another dated variant of an active column): only the new column may appear
        import pathlib
        import tempfile

        imp_name, imp_mod = None, None
        for nm, f_act in sorted(e.functions.items()):
            f0_ = inspect.unwrap(f_act)
            if f0_.__name__ != nm:  # the active variant is registered under name_in_dag
                modobj = importlib.import_module(f0_.__module__)
                cand = getattr(modobj, nm, None)
                if callable(cand) and inspect.unwrap(cand) is not f0_ and nm in nodes:
                    imp_name, imp_mod = nm, f0_.__module__
                    break
        if imp_name is not None:
            with tempfile.TemporaryDirectory() as td:
                pth = pathlib.Path(td) / "verif_reform_module.py"
                pth.write_text(f"from {imp_mod} import {imp_name}\n\n\ndef verif_new_column_m(bruttolohn_m: float) -> float:\n    return bruttolohn_m * 0.5\n", encoding="utf-8")
                try:
                    res, _ = apirel.simulate(e, pop, targets=[*nodes, "verif_new_column_m"], functions=[e.functions, pth])
                    n_eval += 1
                    distinct.add((d, "reform-file", imp_name))
                    diff = apirel.compare_frames(base, res, nodes)
                    if diff:
                        bad.append({"what": f"{d}: a reform file that only ADDS verif_new_column_m (and imports the inactive variant {imp_mod}.{imp_name}) changes {diff[:5]}", "date": d, "kind": "reform-file", "function": imp_name})
                except Exception as ex:  # noqa: BLE001
                    bad.append({"what": f"{d}: a reform file adding one column fails: {ex!r}"[:300], "date": d, "kind": "reform-file"})
        # in-place reform on a second environment must not leak into the first
        e2 = venv.Env(d)
        for g in e2.params:
            _perturb(e2.params[g])
        e3 = venv.Env(d)
        res, _ = apirel.simulate(e3, pop, targets=nodes)
        n_eval += 1
        distinct.add((d, "in-place-reform"))
        if apirel.compare_frames(base, res, nodes):
            bad.append({"what": f"{d}: an in-place reform of one environment leaks into an environment set up afterwards: {apirel.compare_frames(base, res, nodes)[:5]}", "date": d, "kind": "leak"})
        again, _ = apirel.simulate(e, pop, targets=nodes)
        if apirel.compare_frames(base, again, nodes):
            bad.append({"what": f"{d}: an in-place reform of another environment changes the results of this one: {apirel.compare_frames(base, again, nodes)[:5]}", "date": d, "kind": "leak"})
    rep.bounded["perturbation"] = {"evaluations": n_eval, "distinct_nontrivial": len(distinct), "rule": "per date: every parameter group perturbed (all numeric leaves x 1.03), sampled rules replaced by an identical copy and by a user function (+1), deep copy of params, baseline after reform runs, in-place reform of a second environment; all ~320 columns compared bit-for-bit outside the descendant set; distinct = (date, kind, group/function)", "failures": [b["what"] for b in bad][:6]}
    return bad


def _perturb(o):
    if isinstance(o, dict):
        for k, v in o.items():
            if k in ("rounding", "datum"):
                continue
            if isinstance(v, bool):
                continue
            if isinstance(v, (int, float)) and not isinstance(v, bool) and numpy.isfinite(v):
                o[k] = v * 1.03
            elif isinstance(v, numpy.ndarray) and v.dtype.kind == "f":
                o[k] = numpy.where(numpy.isfinite(v), v * 1.03, v)
            else:
                _perturb(v)


def replay(path):
    rp = json.loads(open(path).read())
    print(json.dumps(rp, indent=1)[:3000])
    return 0


def run(tier="quick", seed=0, jobs=16):
    rep = Report("C06", tier, seed, "proof")
    rep._locality_frame = []
    rep.assumptions = ["dags.concatenate_functions evaluates each node from its ancestors' values only (trusted contract); a column's value is then a function of the functions and parameters on its ancestor set",
                       "E3 is a conservative syntactic effect checker with an explicit pure list of library calls", ASSUMPTIONS["T"],
                       "values derived at set-up from another group (kinderzuschl maximum from kindergeld) do not follow a later perturbation: less change, not more"]
    rep.trusted = ["dags", "functools.partial binds the given keyword arguments", "vt/frame.py"]
    frame_part(rep)
    results = par.pmap(_wiring_worker, par.chunks(venv.function_set_classes(), jobs), jobs)
    n = 0
    badw = []
    for st, job, res in results:
        if st != "ok":
            raise RuntimeError(res)
        n += res["n"]
        badw.extend(res["bad"])
    rep.add_counts(n - len(badw), "exhaustive-run", 0.0, "L2 partial wiring")
    for b in badw[:10]:
        rep.ob(f"L2 {b[:100]}", "refuted", "exhaustive-run", 0, "src/_gettsim/interface.py:546-593", "wiring", b)
        rep.violation(f"wiring:{b.split(':')[1].strip()}", f"parameters partialled to the wrong function / group: {b}", {"obligation": "L2", "detail": b}, True)
    rep.functions.add("src/_gettsim/interface.py:546 _round_and_partial_parameters_to_functions")
    # L4 rounding parameters are local, too: every marked rule is wrapped with its OWN specification,
    # whatever rules of other groups are processed before it (contract on _add_rounding_to_functions,
    # shared with C10 R3c)
    from props import C10 as c10

    c10.own_spec_obligations(rep)
    bad = bounded(rep, tier, seed)
    kinds = {b["kind"] for b in bad}
    for key, what in rep._locality_frame:
        obs = [b for b in bad if b["kind"] in ("history", "leak")]
        rep.violation(key, what + (f" | observed: {obs[0]['what']}" if obs else ""), {"obligation": "L3", "observed": obs[:1]}, failing_input_found=bool(obs))
    if not rep._locality_frame:
        for i, b in enumerate(bad):
            rep.violation(f"locality:{b['kind']}:{b.get('group') or b.get('function') or i}", b["what"], b, True)
    rep.samples = rep.obligations[:3] + [{"perturbation": "every numeric leaf of one parameter group x 1.03, columns outside descendants(users(group)) compared bit-for-bit"}]
    return rep.finish({"function_set_classes": len(venv.function_set_classes())})
