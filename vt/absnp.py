"""Abstract execution of straight-line numpy code (join_numpy): the real function is executed on
term-recording objects with the library replaced by a proxy; control flow that depends on array
contents is driven by an explicit *mode* (the values `len()` returns), so that each run follows
one path and records (a) the terms whose truth decided the path, (b) the returned term.
The recorded terms are then given their meaning by the numpy contracts and discharged in z3."""
from __future__ import annotations

import numpy


class T:
    """recorded term"""

    def __init__(self, op, *args):
        self.op, self.args = op, args

    def key(self):
        return (self.op, *[a.key() if isinstance(a, T) else a for a in self.args])

    def __repr__(self):
        return f"{self.op}({', '.join(map(repr, self.args))})"

    # array protocol used by join_numpy
    def __getitem__(self, idx):
        if isinstance(idx, T):
            return T("mask_select", self, idx)
        if isinstance(idx, tuple) and idx == (slice(None, None, None), None):
            return T("column", self)
        raise TypeError(f"abstract indexing {idx!r}")

    def __eq__(self, o):  # noqa: PLR0124
        return T("eq", self, o)

    def __ge__(self, o):
        return T("ge", self, o)

    def __gt__(self, o):
        return T("gt", self, o)

    def __and__(self, o):
        return T("and", self, o)

    def __invert__(self):
        return T("not", self)

    def __hash__(self):
        return hash(self.key())

    def take(self, idx):
        return T("take", self, idx)

    def __len__(self):
        return LEN.value(self)


class _Len:
    def __init__(self):
        self.mode = {}
        self.asked = []

    def value(self, t):
        self.asked.append(t)
        for pred, v in self.mode.items():
            if pred(t):
                return v
        if t.op == "mask_select":
            return 0  # default mode: no element selected
        return 7  # the common length N


LEN = _Len()


class NP:
    def __getattr__(self, k):
        return getattr(numpy, k)

    @staticmethod
    def unique(a, return_counts=False):
        if return_counts:
            return T("unique", a), T("counts", a)
        return T("unique", a)

    @staticmethod
    def isin(a, b):
        return T("isin", a, b)

    @staticmethod
    def pad(a, widths, mode="constant", constant_values=0):
        return T("pad", a, widths, mode, constant_values)

    @staticmethod
    def argmax(a, axis=None):
        return T("argmax", a, axis)


# -----------------------------------------------------------------------------------------
# abstract pandas Series for the input checks of interface.py (C20)
# -----------------------------------------------------------------------------------------
class Elements:
    """stands for `the elements of column <name>` inside a Python set"""

    def __init__(self, name):
        self.name = name

    def __hash__(self):
        return hash(("elements", self.name))

    def __eq__(self, o):
        return isinstance(o, Elements) and o.name == self.name

    def __repr__(self):
        return f"elements({self.name})"


class Truth:
    """a boolean whose value is chosen by the mode; records that it was asked"""

    def __init__(self, term, modes, log):
        self.term, self.modes, self.log = term, modes, log

    def __bool__(self):
        self.log.append(self.term)
        return bool(self.modes.get(self.term, self.modes.get("__default__", {}).get(self.term[0], True)))


class S:
    """abstract Series"""

    def __init__(self, term, modes, log):
        self.term, self.modes, self.log = term, modes, log

    def _b(self, term):
        return Truth(term, self.modes, self.log)

    @property
    def is_unique(self):
        return bool(self._b(("is_unique", self.term)))

    def __iter__(self):
        return iter([Elements(self.term)])

    def isin(self, values):
        return S(("isin", self.term, frozenset(values)), self.modes, self.log)

    def all(self):
        return bool(self._b(("all", self.term)))

    def any(self):
        return bool(self._b(("any", self.term)))

    def __eq__(self, o):  # noqa: PLR0124
        return S(("eq", self.term, o.term if isinstance(o, S) else o), self.modes, self.log)

    def __hash__(self):
        return hash(self.term)

    def __invert__(self):
        return S(("not", self.term), self.modes, self.log)

    def duplicated(self):
        return S(("duplicated", self.term), self.modes, self.log)

    @property
    def loc(self):
        return self

    def __getitem__(self, k):
        return S(("select", self.term, getattr(k, "term", k)), self.modes, self.log)

    def groupby(self, by):
        return _GB(self, by)

    def to_numpy(self):
        """the values without the index: grouping / comparing by them is positional"""
        return _Values(("values", self.term))

    def __repr__(self):
        return f"S{self.term}"


class _Values:
    def __init__(self, term):
        self.term = term


class _GB:
    def __init__(self, s, by):
        self.s, self.by = s, by

    def transform(self, how):
        return S(("group_transform", self.s.term, self.by.term, how), self.s.modes, self.s.log)
