"""Helpers for the relational (two-run) contracts on the public API used by the bounded
stand-ins of C01, C02, C04, C05, C06, C20. Nothing here is counted as proof."""
from __future__ import annotations

import warnings

import numpy
import pandas as pd

from vt import popgen


def simulate(env, data, targets=None, functions=None, params=None, **kw):
    from _gettsim.interface import compute_taxes_and_transfers

    with warnings.catch_warnings(record=True) as w:
        warnings.simplefilter("always")
        res = compute_taxes_and_transfers(data=data, params=env.params if params is None else params, functions=env.functions if functions is None else functions, targets=targets, **kw)
    return res, w


def all_nodes(env, data, targets=None, **kw):
    """every computed column of the real DAG of `targets` (all function nodes requested as targets)"""
    nodes = function_nodes(env, targets, list(data.columns) if hasattr(data, "columns") else list(data))
    res, w = simulate(env, data, targets=nodes, **kw)
    return res


def function_nodes(env, targets=None, data_cols=None):
    dag = env.dag(targets=targets, data_cols=data_cols)
    fno, fo = env.universe(targets, data_cols)
    return sorted(n for n in dag.nodes if n in fno)


def same(a, b, rtol=0.0, atol=0.0):
    a, b = numpy.asarray(a), numpy.asarray(b)
    if a.shape != b.shape:
        return False
    if a.dtype.kind in "fc" or b.dtype.kind in "fc":
        if rtol == 0 and atol == 0:
            return bool(numpy.array_equal(a.astype(float), b.astype(float), equal_nan=True))
        return bool(numpy.allclose(a.astype(float), b.astype(float), rtol=rtol, atol=atol, equal_nan=True))
    return bool(numpy.array_equal(a, b))


def same_partition(a, b):
    def part(x):
        g = {}
        for i, v in enumerate(x):
            g.setdefault(v, set()).add(i)
        return {frozenset(s) for s in g.values()}

    return part(list(a)) == part(list(b))


def is_id(col):
    return col.endswith("_id") and not col.startswith("p_id")


def compare_frames(a: pd.DataFrame, b: pd.DataFrame, cols=None, rtol=0.0, atol=0.0):
    """-> list of column names that differ (id columns compared as partitions)"""
    bad = []
    for c in cols if cols is not None else [c for c in a.columns if c in b.columns]:
        if c not in a.columns or c not in b.columns:
            bad.append(c)
            continue
        if is_id(c):
            if not same_partition(a[c].to_numpy(), b[c].to_numpy()):
                bad.append(c)
        elif not same(a[c].to_numpy(), b[c].to_numpy(), rtol, atol):
            bad.append(c)
    return bad


def populations(year, seed=0, small=False):
    kinds = [["single", "family"], ["single_parent", "pensioners", "couple"], ["patchwork", "adult_child", "married", "three_gen"]]
    if small:
        kinds = kinds[:2]
    return [popgen.population(k, year=year, seed=seed + i) for i, k in enumerate(kinds)]
