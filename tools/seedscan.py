#!/usr/bin/env python3
"""Apply every seeded change under /verif/seeded/<id>/patch.diff to /repo, run the quick check of
its property (id prefix, or the list in meta.json 'checks'), record what was reported, undo.
usage: tools/seedscan.py [id ...]"""
import json
import os
import re
import subprocess
import sys

HERE = os.path.dirname(os.path.dirname(os.path.abspath(__file__)))
SEEDED = os.path.join(HERE, "seeded")


def sh(cmd, **kw):
    return subprocess.run(cmd, shell=True, capture_output=True, text=True, **kw)


def main():
    ids = sys.argv[1:] or sorted(d for d in os.listdir(SEEDED) if os.path.isdir(os.path.join(SEEDED, d)))
    # work on a scratch worktree so that /repo itself is never touched
    scratch = os.environ.get("SEEDSCAN_DIR", "/tmp/seedscan_wt")
    sh(f"git -C /repo worktree remove --force {scratch}")
    if sh(f"git -C /repo worktree add -q {scratch} HEAD").returncode != 0:
        print("cannot create the scratch worktree")
        return 2
    env = dict(os.environ, VERIF_REPO=scratch, VERIF_OUT=os.environ.get("SEEDSCAN_OUT", "/tmp/seedscan_out"))
    summary = {}
    for i in ids:
        d = os.path.join(SEEDED, i)
        patch = os.path.join(d, "patch.diff")
        if not os.path.exists(patch):
            continue
        meta = json.load(open(os.path.join(d, "meta.json"))) if os.path.exists(os.path.join(d, "meta.json")) else {}
        checks = meta.get("checks") or [i.split("_")[0]]
        if sh(f"git -C {scratch} apply {patch}").returncode != 0:
            summary[i] = "patch does not apply"
            continue
        det = {}
        try:
            for c in checks:
                if not os.path.exists(os.path.join(HERE, "props", f"{c}.py")):
                    det[c] = {"exit": None, "note": "no check yet"}
                    continue
                r = sh(f"{HERE}/check {c} --tier quick", env=env)
                viol = [l for l in r.stdout.splitlines() if l.startswith("VIOLATION")]
                det[c] = {"exit": r.returncode, "violations": len(viol), "first": viol[:2], "no_failing_input": sum("no-failing-input-found" in l for l in viol),
                          "summary": [l for l in r.stdout.splitlines() if l.startswith("[")][-1:]}
        finally:
            sh(f"git -C {scratch} checkout -- .")
        json.dump(det, open(os.path.join(d, "detect.json"), "w"), indent=1)
        summary[i] = {c: (v.get("exit"), v.get("violations")) for c, v in det.items()}
        print(i, summary[i], flush=True)
    sh(f"git -C /repo worktree remove --force {scratch}")
    return 0


if __name__ == "__main__":
    sys.exit(main())
